(** Property C15, composition with the parser model (part 6): the phases AFTER the token loop accept the state the
    printed line reaches -- the environment phase is the identity (no generated argument reads a variable), the
    defaults phase succeeds (every default it applies passes the argument's value parser), the validator accepts
    (the generated command declares no relation beyond [required], and every required argument is present).

    Part A is about ANY command: [add_env] without variables, one [react] with any source succeeds, the defaults
    phase succeeds, and validator completeness for commands without relations ([norel]; through C03's
    [validate_complete_static]).  Part B instantiates it for the generated command of a struct of fields. *)
From ClapModel Require Import Base.Bytes Base.Machine Base.Utf8.
From ClapModel Require Import Parse.Cmd Parse.Build Parse.Valid Parse.Matcher Parse.Errors Parse.Validator Parse.Parser.
From ClapModel Require Import ParseProofs.Safe ParseProofs.Invariant ParseProofs.Totality ParseProofs.TotalityMain
                              ParseProofs.Actions ParseProofs.ActionsLoop ParseProofs.Sources ParseProofs.SourcesLine
                              ParseProofs.Dispatch ParseProofs.Relations ParseProofs.RelationsComplete ParseProofs.ValidateTotal
                              ParseProofs.Unparse ParseProofs.UnparseProofs ParseProofs.UnparseTop
                              ParseProofs.UnparseSub ParseProofs.UnparseTrail ParseProofs.UnparseTree.
From ClapModel Require Import Derive.DeriveModel Derive.DeriveProofs Derive.DeriveCmd Derive.DeriveArgs Derive.DeriveParse
                              Derive.DeriveAccept Derive.DeriveEnum.
From Coq Require Import ZArith List Bool Lia.
From RecordUpdate Require Import RecordSet.
Import RecordSetNotations.
Import ListNotations.
Open Scope N_scope.

(** * A1. the environment phase of a command none of whose arguments reads a variable *)
Lemma add_env_noenv c st : (forall a, In a (c_args c) -> a_env a = None) -> add_env c st = ROk st.
Proof.
  intros H. unfold add_env. induction (c_args c) as [|a t IH]; [reflexivity|].
  cbn [fold_left rbind]. rewrite (H a (or_introl eq_refl)).
  destruct (mt_contains (mt st) (a_id a)); apply IH; intros x Hx; apply H; right; exact Hx.
Qed.

(** * A2. one storing [react], any source: existence (generalises [react_core_ok] of DeriveAccept.v, which is the
    command-line instance) *)
Theorem react_core_src_ok c idn s a raw ti st vals vp :
  wf_m (mt st) -> ~ In (a_id a) (groups_for_arg c (a_id a)) ->
  (if is_cmdline s then verify_num_args c a raw st else ROk tt) = ROk tt ->
  occ_values c a raw ti = Some vals -> a_vp a = Some vp ->
  Forall (fun v => vp_parse vp v = None) (stored_vals a vals) ->
  match a_get_action a with
  | ASet | ASetTrue | ASetFalse => mt_contains (mt st) (a_id a) = false
  | AAppend => True
  | ACount => vals <> []
  | _ => False
  end ->
  exists st', react_core c idn s a raw ti st = ROk (st', PRValuesDone).
Proof.
  intros Hwf Hng Hv Ho Evp Hall Hact. rewrite Actions.react_core_unfold. rewrite Hv. cbn [rbind].
  rewrite Ho. cbn [expect rbind]. unfold react_action, stored_vals in *.
  assert (SL : forall vs bump, mt_contains (mt st) (a_id a) = false -> Forall (fun v => vp_parse vp v = None) vs ->
            exists st', set_like c idn s a vs bump st = ROk (st', PRValuesDone)).
  { intros vs bump Hc Hvs. unfold set_like.
    set (st0 := if bump && is_cmdline s && is_flag_ident idn then ps_bump st else st).
    assert (Em : mt st0 = mt st) by (unfold st0; destruct (bump && is_cmdline s && is_flag_ident idn); [apply ps_bump_mt|reflexivity]).
    rewrite Em. pose proof (mt_remove_wf (mt st) (a_id a) Hwf) as W1. pose proof (mt_remove_removed (mt st) (a_id a)) as R1.
    destruct (mt_remove (mt st) (a_id a)) as [m1 removed]. cbn [fst snd] in W1, R1. rewrite R1, Hc. cbn [andb].
    destruct (start_push_ok c a s vp vs (st0 <| mt := m1 |>) m1 W1 Hng Evp Hvs) as [st' E'].
    destruct (start_custom_arg c a s m1) as [m2|e s0|n]; cbn [rbind] in E' |- *; try discriminate E'.
    rewrite E'. cbn [rbind]. eexists. reflexivity. }
  destruct (a_get_action a); try contradiction.
  - apply SL; assumption.
  - set (st0 := if is_cmdline s && is_flag_ident idn then ps_bump st else st).
    assert (Em : mt st0 = mt st) by (unfold st0; destruct (is_cmdline s && is_flag_ident idn); [apply ps_bump_mt|reflexivity]).
    rewrite Em. destruct (start_push_ok c a s vp vals st0 (mt st) Hwf Hng Evp Hall) as [st' E'].
    destruct (start_custom_arg c a s (mt st)) as [m2|e s0|n]; cbn [rbind] in E' |- *; try discriminate E'.
    rewrite E'. cbn [rbind]. eexists. reflexivity.
  - apply SL; assumption.
  - apply SL; assumption.
  - destruct vals as [|v0 vr]; [contradiction Hact; reflexivity|].
    pose proof (mt_remove_wf (mt st) (a_id a) Hwf) as W1.
    destruct (mt_remove (mt st) (a_id a)) as [m1 removed]. cbn [fst] in W1.
    destruct (start_push_ok c a s vp (v0 :: vr) st m1 W1 Hng Evp Hall) as [st' E'].
    destruct (start_custom_arg c a s m1) as [m2|e s0|n]; cbn [rbind] in E' |- *; try discriminate E'.
    rewrite E'. cbn [rbind]. eexists. reflexivity.
Qed.

(** * A3. the defaults phase succeeds *)
(** what makes the default of [a] storable: no conditional rule, and either no default at all or a default that is not
    split, passes the argument's own value parser, on a storing action *)
Definition default_passes (a : arg) : Prop :=
  a_default_ifs a = [] /\
  (a_default a = [] \/
   (a_delim a = None /\ (exists vp, a_vp a = Some vp /\ Forall (fun v => vp_parse vp v = None) (a_default a))
    /\ match a_get_action a with ASet | AAppend | ASetTrue | ASetFalse | ACount => True | _ => False end)).

Lemma stored_vals_nonempty a vals : vals <> [] -> stored_vals a vals = vals.
Proof. intros H. unfold stored_vals. destruct (a_get_action a), vals; try reflexivity; contradiction H; reflexivity. Qed.

Lemma add_default_value_ok c a st :
  mt_contains (mt st) (a_id a) = true \/ default_passes a ->
  ~ In (a_id a) (groups_for_arg c (a_id a)) -> wf_m (mt st) -> mt_pending (mt st) = None ->
  exists st', add_default_value c a st = ROk st' /\ wf_m (mt st') /\ mt_pending (mt st') = None
              /\ (forall j, mt_contains (mt st) j = true -> mt_contains (mt st') j = true).
Proof.
  intros Hc Hng Hwf Hp. unfold add_default_value.
  destruct (mt_contains (mt st) (a_id a)) eqn:Ec.
  - rewrite andb_false_r. exists st. destruct (negb (is_nil (a_default a))); auto.
  - destruct Hc as [Hc|[Hifs Hd]]; [discriminate Hc|]. rewrite Hifs. cbn [is_nil negb andb].
    destruct Hd as [Hd|(Hdl & (vp & Evp & Hall) & Hact)].
    + rewrite Hd. cbn [is_nil negb]. exists st. auto.
    + destruct (a_default a) as [|d0 dr] eqn:Ed; cbn [is_nil negb]; [exists st; auto|].
      rewrite (react_no_pending c None SDefault a (d0 :: dr) None st Hp).
      assert (Ho : occ_values c a (d0 :: dr) None = Some (d0 :: dr)).
      { unfold occ_values, delimit. rewrite Hdl. reflexivity. }
      destruct (react_core_src_ok c None SDefault a (d0 :: dr) None st (d0 :: dr) vp Hwf Hng eq_refl Ho Evp) as [st' E].
      { rewrite stored_vals_nonempty by discriminate. exact Hall. }
      { destruct (a_get_action a); try contradiction; try exact Ec; try exact I. discriminate. }
      rewrite E. cbn [rbind fst]. exists st'. split; [reflexivity|].
      destruct (react_core_spec _ _ _ _ _ _ _ _ _ Hwf Hng E) as [vals [_ [W [P [G [F _]]]]]].
      split; [exact W|]. split; [rewrite P; exact Hp|].
      intros j Hj. unfold mt_contains, fm_contains in *. destruct (beq j (a_id a)) eqn:Ej.
      * apply beq_eq in Ej. subst j. rewrite Ec in Hj. discriminate Hj.
      * apply beq_neq in Ej. destruct (in_dec (list_eq_dec N.eq_dec) j (groups_for_arg c (a_id a))) as [Hin|Hnin].
        -- (* a default source starts no group: the entry of a group id is untouched *)
           destruct (react_core_noncmd c None SDefault a (d0 :: dr) None st st' PRValuesDone) as [vs [_ [_ St]]];
             [discriminate|discriminate| |exact E|].
           { unfold mt_contains, fm_contains in Ec. destruct (fm_get (a_id a) (mt_args (mt st))); [discriminate Ec|reflexivity]. }
           destruct St as (_ & _ & Hfr & _). rewrite (Hfr j); [exact Hj| |intros Hx; discriminate Hx].
           destruct (beq (a_id a) j) eqn:E2; [apply beq_eq in E2; congruence|reflexivity].
        -- unfold get in F. rewrite (F j Ej Hnin). cbn [is_cmdline andb]. exact Hj.
Qed.

Theorem add_defaults_ok c st :
  (forall a, In a (c_args c) -> ~ In (a_id a) (groups_for_arg c (a_id a))) ->
  (forall a, In a (c_args c) -> mt_contains (mt st) (a_id a) = true \/ default_passes a) ->
  wf_m (mt st) -> mt_pending (mt st) = None ->
  exists st', add_defaults c st = ROk st' /\ wf_m (mt st') /\ mt_pending (mt st') = None.
Proof.
  intros Hng. unfold add_defaults. revert st. induction (c_args c) as [|a t IH]; intros st Hc Hwf Hp.
  - exists st. auto.
  - cbn [fold_left rbind].
    destruct (add_default_value_ok c a st (Hc a (or_introl eq_refl)) (Hng a (or_introl eq_refl)) Hwf Hp) as [st1 (E1 & W1 & P1 & M1)].
    rewrite E1. apply IH.
    + intros x Hx. apply Hng. right. exact Hx.
    + intros x Hx. destruct (Hc x (or_intror Hx)) as [H|H]; [left; apply M1; exact H|right; exact H].
    + exact W1.
    + exact P1.
Qed.

(** * A4. validator completeness for a command without relations *)
(** no [requires], no conditional requirement, no conflict, no override, no exclusive argument; groups only collect
    ([multiple], neither required nor requiring nor conflicting) *)
Definition norel (c : cmd) : bool :=
  forallb (fun a => is_nil (a_requires a) && is_nil (a_r_ifs a) && is_nil (a_r_ifs_all a) && is_nil (a_r_unless a)
                    && is_nil (a_r_unless_all a) && is_nil (a_blacklist a) && is_nil (a_overrides a)
                    && negb (a_exclusive a)) (c_args c)
  && forallb (fun g => negb (g_required g) && is_nil (g_requires g) && is_nil (g_conflicts g) && g_multiple g) (c_groups c).

Lemma is_nil_true {A} (l : list A) : is_nil l = true -> l = [].
Proof. destruct l; [reflexivity|discriminate]. Qed.

Lemma norel_arg c a : norel c = true -> In a (c_args c) ->
  a_requires a = [] /\ a_r_ifs a = [] /\ a_r_ifs_all a = [] /\ a_r_unless a = [] /\ a_r_unless_all a = []
  /\ a_blacklist a = [] /\ a_overrides a = [] /\ a_exclusive a = false.
Proof.
  intros H Hin. unfold norel in H. apply andb_prop in H. destruct H as [H _].
  rewrite forallb_forall in H. specialize (H a Hin).
  repeat (apply andb_prop in H; destruct H as [H ?]).
  repeat match goal with X : is_nil _ = true |- _ => apply is_nil_true in X end.
  destruct (a_exclusive a); [discriminate|]. repeat split; assumption.
Qed.
Lemma norel_group c g : norel c = true -> In g (c_groups c) ->
  g_required g = false /\ g_requires g = [] /\ g_conflicts g = [] /\ g_multiple g = true.
Proof.
  intros H Hin. unfold norel in H. apply andb_prop in H. destruct H as [_ H].
  rewrite forallb_forall in H. specialize (H g Hin).
  repeat (apply andb_prop in H; destruct H as [H ?]).
  repeat match goal with X : is_nil _ = true |- _ => apply is_nil_true in X end.
  destruct (g_required g); [discriminate|]. repeat split; assumption.
Qed.

Lemma norel_static c : norel c = true -> static_only c = true.
Proof.
  intros H. unfold static_only. apply andb_true_intro. split; apply forallb_forall.
  - intros a Ha. destruct (norel_arg c a H Ha) as (E1 & E2 & E3 & E4 & E5 & _). rewrite E1, E2, E3, E4, E5. reflexivity.
  - intros g Hg. destruct (norel_group c g H Hg) as (E1 & E2 & _). rewrite E1, E2. reflexivity.
Qed.

Lemma norel_no_declares c x y : norel c = true -> ~ declares c x y.
Proof.
  intros H [[a [Ha D]]|[g [[_ Hg] D]]].
  - destruct (find_arg_id c x a Ha) as [_ Hin]. destruct (norel_arg c a H Hin) as (_ & _ & _ & _ & _ & B & O & _).
    rewrite B, O in D. destruct D as [[]|[[]|[g [[Hg _] D]]]].
    destruct (norel_group c g H Hg) as (_ & _ & C & M). rewrite C, M in D. destruct D as [[]|[D _]]. discriminate D.
  - destruct (find_group_id c x g Hg) as [_ Hin]. destruct (norel_group c g H Hin) as (_ & _ & C & _).
    rewrite C in D. destruct D.
Qed.

(** the specification holds of every matcher in which the required arguments are present *)
Theorem norel_relations c mt : norel c = true ->
  (forall a, In a (c_args c) -> a_required a = true -> present mt (a_id a)) ->
  Relations c mt.
Proof.
  intros H Hreq. constructor.
  - intros i a x _ _ _ _. split; apply norel_no_declares; exact H.
  - intros i a j b Ha Hx. destruct (find_arg_id c i a Ha) as [_ Hin].
    destruct (norel_arg c a H Hin) as (_ & _ & _ & _ & _ & _ & _ & X). rewrite X in Hx. discriminate Hx.
  - intros _ x R. destruct R as [a Hin Hr|g Hin Hr|g y Hin Hr _|x0 g y [_ Hg] _ Hy|root m y _ _ Rb].
    + split.
      * intros a' _. left. apply Hreq; assumption.
      * intros g [Hn _]. destruct (find_arg_of_in c a Hin) as [a' Ha']. rewrite Ha' in Hn. discriminate Hn.
    + destruct (norel_group c g H Hin) as (X & _). rewrite X in Hr. discriminate Hr.
    + destruct (norel_group c g H Hin) as (X & _). rewrite X in Hr. discriminate Hr.
    + destruct (find_group_id c x0 g Hg) as [_ Hin]. destruct (norel_group c g H Hin) as (_ & X & _).
      rewrite X in Hy. destruct Hy.
    + exfalso. destruct Rb as [a p y Ha Hy _|x0 b y _ Hb Hy].
      * destruct (find_arg_id c root a Ha) as [_ Hin]. destruct (norel_arg c a H Hin) as (X & _). rewrite X in Hy. destruct Hy.
      * destruct (find_arg_id c x0 b Hb) as [_ Hin]. destruct (norel_arg c b H Hin) as (X & _). rewrite X in Hy. destruct Hy.
  - intros _ a Hin C. exfalso. destruct (norel_arg c a H Hin) as (_ & E2 & E3 & E4 & E5 & _).
    destruct C as [[o [v [Hi _]]]|[[Hn _]|[[Hn|Hn] _]]].
    + rewrite E2 in Hi. destruct Hi.
    + apply Hn. exact E3.
    + apply Hn. exact E4.
    + apply Hn. exact E5.
Qed.

(** VALIDATOR COMPLETENESS WITHOUT RELATIONS: the validator of a command that declares no relation accepts every
    matcher (unique keys, known ids) in which each [required] argument is explicitly present *)
Theorem norel_validate c mt :
  assert_app c = true -> norel c = true -> fm_wf mt -> keys_ok c (mt_args mt) ->
  (forall p, In p (positionals c) -> a_index p <> None) ->
  is_set s_arg_required_else_help c = false -> is_set s_sub_required c = false ->
  (forall a, In a (c_args c) -> a_required a = true -> present mt (a_id a)) ->
  validate c mt = VOk.
Proof.
  intros A N W K Pp He Hs Hreq.
  apply (validate_complete_static c (assert_app_rel_wf c A) (norel_static c N) A mt W K Pp).
  - rewrite He, andb_false_r. reflexivity.
  - rewrite Hs, andb_false_r. reflexivity.
  - apply norel_relations; assumption.
Qed.

(** * A5. the state invariant "every key of the matcher is an id of the command" along a sequence of occurrences
    (C01's generic invariant [G], with trivial value / index predicates) *)
Definition Pt : list (id * marg) -> N -> Prop := fun _ _ => True.
Definition Vt : bytes -> Prop := fun _ => True.

Lemma react_all_G c : (forall a, In a (c_args c) -> arg_complete a) ->
  forall os st st', Forall (fun o => In (o_arg o) (c_args c)) os -> G c Pt Vt st ->
  react_all c os st = ROk st' -> G c Pt Vt st'.
Proof.
  intros W. induction os as [|o os IH]; intros st st' Hos HG H; cbn [react_all] in H.
  - inversion H; subst. exact HG.
  - inversion Hos as [|? ? Ho Hos']; subst.
    assert (S : safe (fun x => G c Pt Vt (fst x) /\ snd x = PRValuesDone /\ pending_of (fst x) = None) (G c Pt Vt)
                     (react c (o_ident o) (o_src o) (o_arg o) (o_raw o) (o_ti o) st)).
    { apply (react_safe c W Pt); try (intros; exact I); try exact I; try assumption.
      - intros; apply Forall_forall; intros; exact I.
      - intros; apply Forall_forall; intros; exact I.
      - apply Forall_forall; intros; exact I. }
    destruct (react c (o_ident o) (o_src o) (o_arg o) (o_raw o) (o_ti o) st) as [x|e s|n]; cbn [rbind] in H; try discriminate H.
    cbn [safe] in S. destruct S as [HG1 _]. apply (IH (fst x) st' Hos' HG1 H).
Qed.

Lemma G_keys_ok c st : G c Pt Vt st -> keys_ok c (mt_args (mt st)).
Proof. intros [[_ [He _]] _]. exact He. Qed.

(** * B. the generated command of a struct of option fields *)
Definition same_rel (a' a : arg) : Prop :=
  a_requires a' = a_requires a /\ a_r_ifs a' = a_r_ifs a /\ a_r_ifs_all a' = a_r_ifs_all a
  /\ a_r_unless a' = a_r_unless a /\ a_r_unless_all a' = a_r_unless_all a
  /\ a_blacklist a' = a_blacklist a /\ a_exclusive a' = a_exclusive a.
Lemma same_rel_refl a : same_rel a a. Proof. repeat split; reflexivity. Qed.
Lemma same_rel_trans a b c0 : same_rel a b -> same_rel b c0 -> same_rel a c0.
Proof.
  intros (A1 & A2 & A3 & A4 & A5 & A6 & A7) (B1 & B2 & B3 & B4 & B5 & B6 & B7).
  unfold same_rel. rewrite A1, A2, A3, A4, A5, A6, A7. repeat split; assumption.
Qed.
Lemma ab_action_rel a : same_rel (ab_action a) a.
Proof. unfold ab_action. destruct (a_action a); [apply same_rel_refl|]. destruct a; repeat split; reflexivity. Qed.
Lemma ab_default_rel a : same_rel (ab_default a) a.
Proof.
  unfold ab_default. destruct (action_default_value (a_get_action a)); [|apply same_rel_refl].
  destruct (is_nil (a_default a)); [|apply same_rel_refl]. destruct a; repeat split; reflexivity.
Qed.
Lemma ab_dmissing_rel a : same_rel (ab_dmissing a) a.
Proof.
  unfold ab_dmissing. destruct (action_default_missing_value (a_get_action a)); [|apply same_rel_refl].
  destruct (is_nil (a_default_missing a)); [|apply same_rel_refl]. destruct a; repeat split; reflexivity.
Qed.
Lemma ab_vp_rel a : same_rel (ab_vp a) a.
Proof. unfold ab_vp. destruct (a_vp a); [apply same_rel_refl|]. destruct a; repeat split; reflexivity. Qed.
Lemma ab_num_rel a : same_rel (ab_num a) a.
Proof.
  unfold ab_num. destruct (a_num a); [apply same_rel_refl|].
  destruct (1 <? a_nvalnames a); destruct a; repeat split; reflexivity.
Qed.
Lemma arg_build_rel a : same_rel (arg_build a) a.
Proof.
  unfold arg_build.
  eapply same_rel_trans; [apply ab_num_rel|]. eapply same_rel_trans; [apply ab_vp_rel|].
  eapply same_rel_trans; [apply ab_dmissing_rel|]. eapply same_rel_trans; [apply ab_default_rel|]. apply ab_action_rel.
Qed.

Lemma bf_rel f :
  a_requires (bf f) = [] /\ a_r_ifs (bf f) = [] /\ a_r_ifs_all (bf f) = [] /\ a_r_unless (bf f) = [] /\ a_r_unless_all (bf f) = []
  /\ a_blacklist (bf f) = [] /\ a_exclusive (bf f) = false.
Proof.
  Transparent bf. unfold bf. Opaque bf.
  destruct (arg_build_rel (field_arg false f)) as (H1 & H2 & H3 & H4 & H5 & H6 & H7).
  rewrite H1, H2, H3, H4, H5, H6, H7, field_arg_closed. repeat split; reflexivity.
Qed.

Lemma hb_facts : a_requires hb = [] /\ a_r_ifs hb = [] /\ a_r_ifs_all hb = [] /\ a_r_unless hb = [] /\ a_r_unless_all hb = []
  /\ a_blacklist hb = [] /\ a_overrides hb = [] /\ a_exclusive hb = false
  /\ a_env hb = None /\ a_default_ifs hb = [] /\ a_default hb = [] /\ a_required hb = false.
Proof. repeat split; reflexivity. Qed.

Lemma struct_group_facts gid ns :
  g_required (struct_group gid ns) = false /\ g_requires (struct_group gid ns) = []
  /\ g_conflicts (struct_group gid ns) = [] /\ g_multiple (struct_group gid ns) = true.
Proof. unfold struct_group. destruct (has_flatten ns); repeat split; reflexivity. Qed.

(** the values: an unmentioned field's default is storable; a required field is mentioned *)
Definition defaults_pass (ns : nodes) (vs : list dval) : Prop :=
  forall f v, at_node ns vs f v -> field_groups f v = Some None -> default_passes (bf f).
Definition required_mentioned (ns : nodes) (vs : list dval) : Prop :=
  forall f v, at_node ns vs f v -> field_required f = true -> exists gs, field_groups f v = Some (Some gs).

Lemma print_at_node : forall ns vs p f, fields_only ns = true -> print_nodes ns vs = Some p -> In f (fields_of ns) ->
  exists v g, at_node ns vs f v /\ field_groups f v = Some g.
Proof.
  induction ns as [|n t IH]; intros vs p f Hfo Hp Hf; [destruct Hf|].
  destruct n as [f'| |]; cbn [fields_only] in Hfo; try discriminate Hfo.
  destruct vs as [|v vt]; [discriminate Hp|]. cbn [print_nodes print_node] in Hp.
  destruct (field_groups f' v) as [g|] eqn:G; [|discriminate Hp].
  destruct (print_nodes t vt) as [b|] eqn:B; [|discriminate Hp].
  cbn [fields_of] in Hf. cbn [at_node]. destruct Hf as [<-|Hf].
  - exists v, g. split; [left; split; reflexivity|exact G].
  - destruct (IH vt b f Hfo B Hf) as [v' [g' [Hat Hg]]]. exists v', g'. split; [right; exact Hat|exact Hg].
Qed.

Lemma at_node_in : forall ns vs f v, fields_only ns = true -> at_node ns vs f v -> In f (fields_of ns).
Proof.
  induction ns as [|n t IH]; intros vs f v Hfo Hat; [destruct Hat|].
  destruct n as [f2| |]; cbn [fields_only] in Hfo; try discriminate Hfo. destruct vs as [|v2 vt]; [destruct Hat|].
  cbn [at_node fields_of] in *. destruct Hat as [[-> _]|Hat]; [left; reflexivity|right; apply (IH vt f v Hfo Hat)].
Qed.

Lemma at_node_fun : forall ns vs f v v', fields_only ns = true -> NoDup (map f_id (fields_of ns)) ->
  at_node ns vs f v -> at_node ns vs f v' -> v = v'.
Proof.
  induction ns as [|n t IH]; intros vs f v v' Hfo Hnd H1 H2; [destruct H1|].
  destruct n as [f2| |]; cbn [fields_only] in Hfo; try discriminate Hfo. destruct vs as [|v2 vt]; [destruct H1|].
  cbn [at_node fields_of map] in *. inversion Hnd as [|? ? Hni Hnd']; subst.
  destruct H1 as [[-> ->]|H1], H2 as [[E2 ->]|H2].
  - reflexivity.
  - exfalso. apply Hni. apply in_map. apply (at_node_in t vt f v' Hfo H2).
  - exfalso. subst f2. apply Hni. apply in_map. apply (at_node_in t vt f v Hfo H1).
  - apply (IH vt f v v' Hfo Hnd' H1 H2).
Qed.

Section PostOpt.
Variable d : dinput.
Variable bin : bytes.
Hypothesis Hs : opt_struct d.
Hypothesis Hv : valid (with_bin (derive_cmd d) bin) = true.
Local Notation c := (built d bin).

Let Hfo : fields_only (d_nodes d) = true := proj1 Hs.
Lemma Hk_of : Forall (fun f => kind_ok (f_kind f) = true) (fields_of (d_nodes d)).
Proof. pose proof Hs as (_ & Hof & _). eapply Forall_impl; [|exact Hof]. intros f Hf. apply Hf. Qed.
Let Hk := Hk_of.
Let Hconv : conv c = true := built_conv d bin Hfo Hk Hv.

Lemma built_norel : norel c = true.
Proof.
  unfold norel. rewrite (built_args_eq d bin Hfo Hk), (built_groups d bin Hfo). apply andb_true_intro. split.
  - rewrite forallb_app. apply andb_true_intro. split; [|reflexivity].
    apply forallb_forall. intros a Ha. apply in_map_iff in Ha. destruct Ha as [f [<- _]].
    destruct (bf_rel f) as (H1 & H2 & H3 & H4 & H5 & H6 & H7).
    destruct (bf_frame f) as (_ & _ & _ & _ & _ & _ & _ & H8 & _).
    rewrite H1, H2, H3, H4, H5, H6, H7, H8. reflexivity.
  - cbn [forallb]. destruct (struct_group_facts (d_gid d) (d_nodes d)) as (H1 & H2 & H3 & H4).
    rewrite H1, H2, H3, H4. reflexivity.
Qed.

Lemma built_noenv a : In a (c_args c) -> a_env a = None.
Proof.
  intros Ha. destruct (built_arg_cases d bin Hfo Hk a Ha) as [[f [_ ->]]| ->]; [|reflexivity].
  apply (bf_frame f).
Qed.

Lemma built_complete a : In a (c_args c) -> arg_complete a.
Proof.
  intros Ha. rewrite built_eq in Ha. apply (build_self_args_complete (with_bin (derive_cmd d) bin)); [|exact Ha].
  unfold derive_cmd. rewrite (derive_cmd_fields false d Hfo), with_bin_root. reflexivity.
Qed.

Lemma built_nogroup a : In a (c_args c) -> ~ In (a_id a) (groups_for_arg c (a_id a)).
Proof. intros Ha. apply (assert_app_group_ids c a (conv_app c Hconv) Ha). Qed.

Lemma built_required a : In a (c_args c) -> a_required a = true ->
  exists f, In f (fields_of (d_nodes d)) /\ a = bf f /\ field_required f = true.
Proof.
  intros Ha Hr. destruct (built_arg_cases d bin Hfo Hk a Ha) as [[f [Hf ->]]| ->]; [|discriminate Hr].
  exists f. split; [exact Hf|]. split; [reflexivity|].
  destruct (bf_frame f) as (_ & _ & _ & _ & _ & _ & _ & _ & _ & _ & H & _). rewrite <- H. exact Hr.
Qed.

(** THE POST-LOOP PHASES ACCEPT the state the printed line reaches *)
Theorem printed_post_loop vs argv st1 :
  printable (d_nodes d) vs -> defaults_pass (d_nodes d) vs -> required_mentioned (d_nodes d) vs ->
  print d vs = Some argv ->
  react_all c (nodes_occs (d_nodes d) vs) ps_new = ROk st1 ->
  exists st, post_loop c st1 = ROk st.
Proof.
  intros Hpr Hdp Hrm Hprint E1.
  pose proof Hs as (_ & Hof & Hndk & Hndi).
  destruct (print_is_render d bin vs argv Hs Hpr Hprint) as (_ & _ & O).
  set (its := nodes_items (d_nodes d) vs) in *. rewrite <- O in E1.
  unfold print, print_top in Hprint. destruct (print_nodes (d_nodes d) vs) as [p|] eqn:P; [|discriminate Hprint].
  (* the state after the token loop *)
  pose proof (react_all_pending_keep c _ _ _ E1 eq_refl) as P1.
  assert (W1 : wf_m (mt st1)).
  { assert (Hhb : In hb (c_args c)) by (rewrite (built_args_eq d bin Hfo Hk); apply in_or_app; right; left; reflexivity).
    assert (Hc : Forall (no_group_clash c (a_id hb)) (occs c 1 its)).
    { eapply Forall_impl; [|apply (occs_args c its 1)]. intros o Ho. split.
      - apply (assert_app_group_ids c (o_arg o) (conv_app c Hconv) Ho).
      - apply (assert_app_group_ids c hb (conv_app c Hconv) Hhb). }
    destruct (react_all_denote c (a_id hb) _ ps_new st1 wf_m_new eq_refl Hc E1) as [_ [W _]]. exact W. }
  pose proof (react_all_all_cl c _ _ _ (occs_cmdline c its 1) E1 all_cl_new) as Hcl.
  pose proof (react_all_G c built_complete _ ps_new st1 (occs_args c its 1) (G_ps_new c Pt Vt I) E1) as HG.
  (* a mentioned field has a command-line entry *)
  assert (Hment : forall f v gs, at_node (d_nodes d) vs f v -> field_groups f v = Some (Some gs) ->
            exists e, fm_get (f_id f) (mt_args (mt st1)) = Some e /\ m_source e = Some SCmdLine).
  { intros f v gs Hat Hg. pose proof (at_node_in _ _ _ _ Hfo Hat) as Hf.
    pose proof (proj1 (Forall_forall _ _) Hof f Hf) as (_ & _ & Hd).
    destruct (react_all_occs_denote c Hconv its st1 (bf f) (bf_in d bin Hfo Hk f Hf) E1) as [Gd _].
    unfold denote_arg, denote_os in Gd. rewrite O, bf_id in Gd.
    rewrite (denote_nodes d bin Hfo Hk (d_nodes d) vs f v (Some gs) Hfo (incl_refl _) Hndi Hat Hg Hd) in Gd.
    2: { intros gs' E. inversion E; subst gs'. apply (Hpr f v gs Hat Hg). }
    cbn [opt_map] in Gd. unfold groups_of, get in Gd.
    destruct (fm_get (f_id f) (mt_args (mt st1))) as [e|] eqn:Ge; [|discriminate Gd].
    exists e. split; [reflexivity|]. apply (fm_get_forall _ _ _ Hcl Ge). }
  (* the environment phase is the identity *)
  unfold post_loop. rewrite (add_env_noenv c st1 built_noenv). cbn [rbind].
  (* the defaults phase *)
  destruct (add_defaults_ok c st1) as [st3 (E3 & _ & _)]; [exact built_nogroup| |exact W1|exact P1|].
  { intros a Ha. destruct (built_arg_cases d bin Hfo Hk a Ha) as [[f [Hf ->]]| ->].
    - destruct (print_at_node _ _ _ f Hfo P Hf) as [v [[gs|] [Hat Hg]]].
      + left. destruct (Hment f v gs Hat Hg) as [e [Ge _]]. unfold mt_contains, fm_contains. rewrite bf_id, Ge. reflexivity.
      + right. apply (Hdp f v Hat Hg).
    - right. split; [reflexivity|left; reflexivity]. }
  rewrite E3. cbn [rbind].
  (* the validator *)
  destruct (defaults_inert c st1 st3 P1 E3) as [Ev _]. rewrite Ev.
  rewrite (norel_validate c (mt st1) (conv_app c Hconv) built_norel W1 (G_keys_ok c st1 HG)).
  - eexists. reflexivity.
  - rewrite (built_positionals d bin Hfo Hk). intros p0 [].
  - rewrite (built_is_set _ d bin Hfo). reflexivity.
  - rewrite (built_is_set _ d bin Hfo). reflexivity.
  - intros a Ha Hr. destruct (built_required a Ha Hr) as [f [Hf [-> Hrf]]].
    destruct (print_at_node _ _ _ f Hfo P Hf) as [v [g [Hat Hg]]].
    destruct (Hrm f v Hat Hrf) as [gs Hg']. destruct (Hment f v gs Hat Hg') as [e [Ge Se]].
    rewrite bf_id. exists e. split; [exact Ge|]. unfold explicit_m. rewrite Se. discriminate.
Qed.

End PostOpt.

(** * C. the whole parse of the printed line *)
Lemma built_no_globals d bin : fields_only (d_nodes d) = true ->
  Forall (fun f => kind_ok (f_kind f) = true) (fields_of (d_nodes d)) ->
  no_globals (build_recursive (S (S (depth (build_self (with_bin (derive_cmd d) bin))))) (with_bin (derive_cmd d) bin)) = true.
Proof.
  intros Hfo Hk. rewrite <- built_eq. cbn [build_recursive]. rewrite <- built_eq. apply no_globals_intro.
  - rewrite (proj2 (set_subs_args _ _)), (built_subs d bin Hfo). reflexivity.
  - rewrite (proj1 (set_subs_args _ _)). apply forallb_forall. intros a Hin.
    destruct (built_arg_cases d bin Hfo Hk a Hin) as [[f [_ ->]]| ->]; [rewrite bf_global|]; reflexivity.
Qed.

(** THE GENERATED COMMAND ACCEPTS THE PRINTED LINE, all phases *)
Theorem print_accepted d bin vs argv :
  opt_struct d -> printable (d_nodes d) vs -> accepted_nodes d bin (d_nodes d) vs ->
  defaults_pass (d_nodes d) vs -> required_mentioned (d_nodes d) vs ->
  valid (with_bin (derive_cmd d) bin) = true -> print d vs = Some argv ->
  exists m, parse_top (derive_cmd d) (bin :: argv) = OOk m.
Proof.
  intros Hs Hpr Hacc Hdp Hrm Hv Hp. pose proof Hs as (Hfo & Hof & Hndk & Hndi).
  pose proof (Hk_of d Hs) as Hk.
  destruct (print_cmdline_accepted d bin vs argv 0 Hs Hpr Hacc Hv Hp) as [st1 [E1 _]].
  destruct (printed_post_loop d bin Hs Hv vs argv st1 Hpr Hdp Hrm Hp E1) as [st E2].
  destruct (print_is_render d bin vs argv Hs Hpr Hp) as (Ea & W & O).
  pose proof (built_conv d bin Hfo Hk Hv) as Hconv.
  pose proof (built_no_ignore_errors d bin Hfo) as Hie.
  set (its := nodes_items (d_nodes d) vs) in *.
  assert (Hwf : wf_inv (built d bin) (ILeaf its) = true) by (cbn [wf_inv]; rewrite Hconv, Hie, W; reflexivity).
  assert (Hnb : is_set s_no_binary_name (derive_cmd d) = false).
  { unfold derive_cmd. rewrite (derive_cmd_fields false d Hfo). reflexivity. }
  rewrite built_eq in Hwf. rewrite Ea, (parse_top_inv (derive_cmd d) bin (ILeaf its) Hnb Hv Hwf). rewrite <- built_eq.
  cbn [run_inv]. rewrite O, E1. cbn [rbind]. rewrite E2.
  rewrite (finish_no_globals _ st (built_no_globals d bin Hfo Hk)). eexists. reflexivity.
Qed.

(** * D. from the class of the matches-level round trip: unmentioned defaults are storable *)
Lemma defaults_pass_field f v : field_ok f -> f_delim f = None -> field_groups f v = Some None -> default_passes (bf f).
Proof.
  intros Hok Hd Hg. unfold default_passes.
  destruct (bf_frame f) as (_ & _ & _ & _ & _ & _ & Hdl & _ & _ & Hifs & _).
  split; [exact Hifs|]. rewrite bf_default_eq, bf_vp_eq, bf_action, Hdl, Hd.
  unfold field_groups in Hg. unfold field_ok in Hok. unfold bf_default, field_vp.
  assert (Hact : forall T, f_ty f = T -> T <> TyOther -> field_action f = default_action (f_syn f) (f_t f) /\ f_default f = None).
  { intros T ET NT. rewrite ET in Hok. destruct T; try congruence; destruct Hok as [A D]; unfold field_action; rewrite A; auto. }
  assert (Hda : forall T, f_ty f = T -> T <> TyOther -> T <> TyUnit -> action_default_value (default_action (f_syn f) (f_t f)) = None).
  { intros T ET N1 N2. unfold default_action. unfold f_ty in ET. rewrite ET. destruct T; try congruence; reflexivity. }
  destruct (f_ty f) eqn:T.
  - (* Unit *) destruct (Hact _ eq_refl ltac:(discriminate)) as [A D]. rewrite A, D. left.
    unfold f_ty, from_syn_ty in T. unfold default_action, from_syn_ty.
    destruct (f_syn f) as [|s0|s0|]; try discriminate T; try reflexivity.
    + destruct s0; cbn in T; try discriminate T; destruct s0; discriminate T.
    + destruct s0; discriminate T.
  - destruct (Hact _ eq_refl ltac:(discriminate)) as [A D]. rewrite A, D, (Hda _ eq_refl) by discriminate. left. reflexivity.
  - destruct (Hact _ eq_refl ltac:(discriminate)) as [A D]. rewrite A, D, (Hda _ eq_refl) by discriminate. left. reflexivity.
  - destruct (Hact _ eq_refl ltac:(discriminate)) as [A D]. rewrite A, D, (Hda _ eq_refl) by discriminate. left. reflexivity.
  - destruct (Hact _ eq_refl ltac:(discriminate)) as [A D]. rewrite A, D, (Hda _ eq_refl) by discriminate. left. reflexivity.
  - destruct (Hact _ eq_refl ltac:(discriminate)) as [A D]. rewrite A, D, (Hda _ eq_refl) by discriminate. left. reflexivity.
  - destruct (Hact _ eq_refl ltac:(discriminate)) as [A D]. rewrite A, D, (Hda _ eq_refl) by discriminate. left. reflexivity.
  - (* Other *) destruct v; try discriminate Hg. destruct (field_action f) eqn:FA; try (destruct v; discriminate Hg).
    + destruct (ps (f_t f) v); discriminate Hg.
    + (* SetTrue: the flag is false, the default "false" passes the bool parser *)
      assert (f_t f = TBool /\ f_default f = None) as [Et Ed].
      { unfold field_action in FA. destruct (f_action f) as [a0|]; [subst a0; contradiction Hok|]. apply Hok. exact FA. }
      rewrite Ed, Et. right. split; [reflexivity|]. split; [|exact I].
      eexists. split; [reflexivity|]. repeat constructor.
    + (* Count 0: the default "0" passes the counter's parser *)
      assert (f_t f = TU8 /\ f_default f = None) as [Et Ed].
      { unfold field_action in FA. destruct (f_action f) as [a0|].
        - subst a0. exact Hok.
        - exfalso. unfold default_action in FA. fold (f_ty f) in FA. rewrite T in FA. destruct (f_syn f), (f_t f); discriminate FA. }
      rewrite Ed, Et. right. split; [reflexivity|]. split; [|exact I].
      eexists. split; [reflexivity|]. repeat constructor.
Qed.

Lemma defaults_pass_of_ok : forall ns vs, fields_only ns = true -> Forall (fun f => f_delim f = None) (fields_of ns) ->
  ok_nodes ns vs -> defaults_pass ns vs.
Proof.
  induction ns as [|n t IH]; intros vs Hfo Hdl Hok f v Hat Hg; [destruct Hat|].
  destruct n as [f'| |]; cbn [fields_only] in Hfo; try discriminate Hfo.
  destruct vs as [|v' vt]; [destruct Hat|]. cbn [at_node fields_of ok_nodes ok_node] in *.
  inversion Hdl as [|? ? Hd Hdl']; subst. destruct Hok as [[Hfok _] Hokt].
  destruct Hat as [[-> ->]|Hat].
  - apply (defaults_pass_field f v Hfok Hd Hg).
  - apply (IH vt Hfo Hdl' Hokt f v Hat Hg).
Qed.

(** * E. the enum check of the derived parser passes on the matches of the printed line *)
Lemma map_opt_forallb {A B} (g : A -> option B) : forall l r, map_opt g l = Some r -> forallb (fun x => is_some (g x)) l = true.
Proof.
  induction l as [|x l IH]; intros r H; [reflexivity|]. cbn [map_opt] in H. cbn [forallb].
  destruct (g x); [|discriminate H]. destruct (map_opt g l) as [r'|]; [|discriminate H]. rewrite (IH r' eq_refl). reflexivity.
Qed.
Lemma typed_groups_ok t ic ma gs : typed_groups t ic ma = Some gs ->
  forallb (forallb (fun s => is_some (parse_scalar t ic s))) (m_raw ma) = true.
Proof.
  unfold typed_groups. generalize (m_raw ma). intros l. revert gs.
  induction l as [|g l IH]; intros gs H; [reflexivity|]. cbn [map_opt] in H. cbn [forallb].
  destruct (map_opt (parse_scalar t ic) g) as [r|] eqn:E; [|discriminate H].
  destruct (map_opt (map_opt (parse_scalar t ic)) l) as [r'|]; [|discriminate H].
  rewrite (map_opt_forallb _ _ _ E), (IH r' eq_refl). reflexivity.
Qed.

Lemma field_value_entry_ok f m v m' : field_value f m = XOk (v, m') -> f_ty f <> TyUnit ->
  entry_ok (f_t f) (f_icase f) (f_id f) m = true.
Proof.
  intros H Hn. unfold entry_ok. destruct (f_t f) eqn:Et; try reflexivity.
  destruct (fm_get (f_id f) (ms_args m)) as [ma|] eqn:G; [|reflexivity].
  rewrite <- Et.
  unfold field_value, remove_one, remove_many, remove_occurrences, remove_typed in H. rewrite ?m_contains_get in H.
  rewrite G in H. cbn [is_some] in H.
  destruct (typed_groups (f_t f) (f_icase f) ma) as [gs|] eqn:T; [apply (typed_groups_ok _ _ _ _ T)|].
  destruct (f_ty f); try (contradiction Hn; reflexivity); cbn [xbind] in H; discriminate H.
Qed.

Definition Ty_eq_dec (a b : Ty) : {a = b} + {a <> b}.
Proof. decide equality. Defined.

Lemma unit_no_default f : field_ok f -> f_ty f = TyUnit -> bf_default f = [].
Proof.
  intros Hok T. unfold field_ok in Hok. rewrite T in Hok. destruct Hok as [A D].
  unfold bf_default, field_action. rewrite A, D.
  unfold f_ty, from_syn_ty in T. unfold default_action, from_syn_ty.
  destruct (f_syn f) as [|s0|s0|]; try discriminate T; try reflexivity.
  - destruct s0; cbn in T; try discriminate T; destruct s0; discriminate T.
  - destruct s0; discriminate T.
Qed.

Lemma enum_ok_fields : forall ns vs p m, fields_only ns = true -> ok_nodes ns vs -> print_nodes ns vs = Some p ->
  (forall f v g, at_node ns vs f v -> field_groups f v = Some g ->
     raw_at (f_id f) (ms_args m) = raw_at (f_id f) (field_entry f g)) ->
  enum_ok_nodes ns m = true.
Proof.
  induction ns as [|n t IH]; intros vs p m Hfo Hok Hp Hag; [reflexivity|].
  destruct n as [f| |]; cbn [fields_only] in Hfo; try discriminate Hfo.
  destruct vs as [|v vt]; [discriminate Hp|]. cbn [print_nodes print_node] in Hp.
  destruct (field_groups f v) as [g|] eqn:G; [|discriminate Hp].
  destruct (print_nodes t vt) as [b|] eqn:B; [|discriminate Hp].
  cbn [ok_nodes ok_node] in Hok. destruct Hok as [[Hfok Hsr] Hokt].
  cbn [enum_ok_nodes enum_ok_node]. apply andb_true_intro. split.
  - pose proof (Hag f v g (or_introl (conj eq_refl eq_refl)) G) as A.
    destruct (Ty_eq_dec (f_ty f) TyUnit) as [T|T].
    + (* a unit field has no entry at all *)
      rewrite field_entry_raw in A. assert (g = None) as ->.
      { unfold field_groups in G. rewrite T in G. destruct v; try discriminate G. inversion G. reflexivity. }
      rewrite (unit_no_default f Hfok T) in A. unfold raw_at in A. unfold entry_ok.
      destruct (fm_get (f_id f) (ms_args m)); [discriminate A|]. destruct (f_t f); reflexivity.
    + destruct (field_roundtrip f v g (Matches (field_entry f g) None) Hfok Hsr G eq_refl) as [m0 E0].
      destruct (field_value_raw f m (Matches (field_entry f g) None) v m0 A E0) as [m1 E1].
      apply (field_value_entry_ok f m v m1 E1 T).
  - apply (IH vt b m Hfo Hokt B). intros f' v' g' Hat Hg'. apply (Hag f' v' g' (or_intror Hat) Hg').
Qed.

(** * F. ROUND TRIP AS AN EQUALITY: parsing the printed line with the derived parser returns the value *)
Theorem roundtrip_parse d bin vs argv :
  opt_struct d -> Forall takes_ok (fields_of (d_nodes d)) -> ok_nodes (d_nodes d) vs ->
  accepted_nodes d bin (d_nodes d) vs -> required_mentioned (d_nodes d) vs ->
  valid (with_bin (derive_cmd d) bin) = true -> print d vs = Some argv ->
  derived_parse d (bin :: argv) = PValue vs.
Proof.
  intros Hs Htk Hok Hacc Hrm Hv Hp. pose proof Hs as (Hfo & Hof & Hndk & Hndi).
  assert (Hpr : printable (d_nodes d) vs).
  { apply (printable_nodes _ _ Hfo); [|exact Hok].
    apply Forall_forall. intros f Hf. pose proof (proj1 (Forall_forall _ _) Hof f Hf) as (H1 & H2 & _).
    pose proof (proj1 (Forall_forall _ _) Htk f Hf) as H3. auto. }
  assert (Hdp : defaults_pass (d_nodes d) vs).
  { apply (defaults_pass_of_ok _ _ Hfo); [|exact Hok]. eapply Forall_impl; [|exact Hof]. intros f Hf. apply Hf. }
  destruct (print_accepted d bin vs argv Hs Hpr Hacc Hdp Hrm Hv Hp) as [m Hm].
  apply (proj2 (parse_factor d (bin :: argv) vs)). exists m. split; [exact Hm|].
  apply (roundtrip_parse_sound d bin vs argv m Hs Hpr Hok Hv Hp Hm).
Qed.

(** * G. [required_mentioned] holds by itself when no field carries an explicit [required = true]: the requiredness
    the macro infers is that of plain fields without default, which the printer always writes *)
Lemma required_mentioned_field f v g : f_required f <> Some true -> field_required f = true ->
  field_groups f v = Some g -> exists gs, g = Some gs.
Proof.
  intros Hn Hr Hg. unfold field_required in Hr. destruct (f_required f) as [[|]|]; [contradiction Hn; reflexivity|discriminate Hr|].
  unfold field_groups in Hg. destruct (f_ty f); try discriminate Hr.
  apply andb_prop in Hr. destruct Hr as [_ Ha].
  destruct v; try discriminate Hg. destruct (field_action f); try discriminate Ha.
  - destruct (ps (f_t f) v); [|discriminate Hg]. inversion Hg. eexists. reflexivity.
  - destruct v; discriminate Hg.
Qed.

Lemma required_mentioned_inferred : forall ns vs p, fields_only ns = true ->
  Forall (fun f => f_required f <> Some true) (fields_of ns) -> print_nodes ns vs = Some p -> required_mentioned ns vs.
Proof.
  induction ns as [|n t IH]; intros vs p Hfo Hall Hp f v Hat Hr; [destruct Hat|].
  destruct n as [f'| |]; cbn [fields_only] in Hfo; try discriminate Hfo.
  destruct vs as [|v' vt]; [destruct Hat|]. cbn [print_nodes print_node] in Hp.
  destruct (field_groups f' v') as [g|] eqn:G; [|discriminate Hp].
  destruct (print_nodes t vt) as [b|] eqn:B; [|discriminate Hp].
  cbn [at_node fields_of] in *. inversion Hall as [|? ? Hn Hall']; subst.
  destruct Hat as [[-> ->]|Hat].
  - destruct (required_mentioned_field f v g Hn Hr G) as [gs ->]. exists gs. exact G.
  - apply (IH vt b Hfo Hall' B f v Hat Hr).
Qed.

Theorem roundtrip_parse_inferred d bin vs argv :
  opt_struct d -> Forall takes_ok (fields_of (d_nodes d)) -> Forall (fun f => f_required f <> Some true) (fields_of (d_nodes d)) ->
  ok_nodes (d_nodes d) vs -> accepted_nodes d bin (d_nodes d) vs ->
  valid (with_bin (derive_cmd d) bin) = true -> print d vs = Some argv ->
  derived_parse d (bin :: argv) = PValue vs.
Proof.
  intros Hs Htk Hnr Hok Hacc Hv Hp. apply (roundtrip_parse d bin vs argv Hs Htk Hok Hacc); [|exact Hv|exact Hp].
  pose proof Hs as (Hfo & _). unfold print, print_top in Hp.
  destruct (print_nodes (d_nodes d) vs) as [p|] eqn:P; [|discriminate Hp].
  apply (required_mentioned_inferred _ _ p Hfo Hnr P).
Qed.

(** * H. [accepted_nodes] from the class of the matches-level round trip: the value-parser half follows from [srt]
    (a scalar that parses back is in the language of the field's value parser), the count half is the arithmetic
    condition [fits]: the value range of the generated argument admits the length of every printed group *)
Definition range_admits (r : vrange) (n : N) : bool :=
  negb ((0 <? vmin r) && (n =? 0)) &&
  match r_num_values r with Some k => k =? n | None => (vmin r <=? n) && (n <=? vmax r) end.

Lemma verify_admits c a r g st : a_num a = Some r -> range_admits r (N.of_nat (length g)) = true ->
  verify_num_args c a g st = ROk tt.
Proof.
  intros Hn H. unfold verify_num_args. destruct (is_set s_ignore_errors c); [reflexivity|].
  rewrite Hn. cbn [expect rbind]. unfold range_admits in H. apply andb_prop in H. destruct H as [H1 H2].
  apply negb_true_iff in H1. rewrite H1.
  destruct (r_num_values r) as [k|].
  - rewrite H2. reflexivity.
  - apply andb_prop in H2. destruct H2 as [A B]. apply N.leb_le in A, B.
    destruct (N.of_nat (length g) <? vmin r) eqn:E1; [apply N.ltb_lt in E1; lia|].
    destruct (vmax r <? N.of_nat (length g)) eqn:E2; [apply N.ltb_lt in E2; lia|]. reflexivity.
Qed.

Definition fits (f : field) (v : dval) : Prop :=
  match field_groups f v with
  | Some (Some gs) =>
      match field_action f with ACount => bf_num f = r_empty | _ => True end
      /\ forallb (fun g => range_admits (bf_num f) (N.of_nat (length g))) gs = true
  | _ => True
  end.
Fixpoint fits_all (ns : nodes) (vs : list dval) : Prop :=
  match ns, vs with
  | NCons (NArg f) t, v :: vt => fits f v /\ fits_all t vt
  | _, _ => True
  end.

Lemma scalar_accepts t ic s x : parse_scalar t ic s = Some x -> vp_parse (vp_of false ic t) s = None.
Proof.
  destruct t as [| | | |e]; [| | | |apply enum_scalar_accepts]; cbn [parse_scalar vp_of vp_parse].
  - destruct (beq s s_true); [reflexivity|]. destruct (beq s s_false); [reflexivity|discriminate].
  - unfold parse_int_in. destruct (negb (utf8_valid s)); [discriminate|]. destruct (parse_i64 s) as [z|]; [|discriminate].
    destruct ((0 <=? z) && (z <=? 255))%Z; [reflexivity|discriminate].
  - unfold parse_int_in. destruct (negb (utf8_valid s)); [discriminate|]. destruct (parse_i64 s) as [z|]; [|discriminate].
    destruct ((i64_lo <=? z) && (z <=? i64_hi))%Z; [reflexivity|discriminate].
  - destruct (utf8_valid s); [reflexivity|discriminate].
Qed.

Lemma map_opt_in {A B} (g : A -> option B) : forall l r y, map_opt g l = Some r -> In y r -> exists x, In x l /\ g x = Some y.
Proof.
  induction l as [|a l IH]; intros r y H Hy; cbn [map_opt] in H.
  - inversion H; subst. destruct Hy.
  - destruct (g a) as [b|] eqn:E; [|discriminate H]. destruct (map_opt g l) as [r'|]; [|discriminate H]. inversion H; subst.
    destruct Hy as [<-|Hy]; [exists a; split; [left; reflexivity|exact E]|].
    destruct (IH r' y eq_refl Hy) as [x [Hx Gx]]. exists x. split; [right; exact Hx|exact Gx].
Qed.

(** every printed value of a Set / Append field is the print of one of the value's scalars *)
Lemma printed_scalars f v gs : ty_ok f = true -> field_groups f v = Some (Some gs) ->
  (field_action f = ASet \/ field_action f = AAppend) ->
  forall g s, In g gs -> In s g -> exists x, In x (scalars v) /\ ps (f_t f) x = Some s.
Proof.
  intros Hty Hg Hact g s Hgin Hs. unfold field_groups in Hg. unfold ty_ok in Hty.
  assert (Hvec : forall l ss, map_opt (ps (f_t f)) l = Some ss ->
            In g (if f_is_positional f then [ss] else map (fun s => [s]) ss) -> exists x, In x l /\ ps (f_t f) x = Some s).
  { intros l ss M Hin. apply (map_opt_in _ l ss s M). destruct (f_is_positional f).
    - destruct Hin as [<-|[]]. exact Hs.
    - apply in_map_iff in Hin. destruct Hin as [s0 [<- Hs0]]. destruct Hs as [<-|[]]. exact Hs0. }
  destruct (f_ty f) eqn:T; try discriminate Hty.
  - destruct v; discriminate Hg.
  - destruct v; try discriminate Hg. destruct l as [|x l]; [discriminate Hg|].
    destruct (map_opt (ps (f_t f)) (x :: l)) as [ss|] eqn:M; [|discriminate Hg]. inversion Hg; subst gs.
    apply (Hvec _ _ M Hgin).
  - destruct v; try discriminate Hg. destruct o as [x|]; [|discriminate Hg].
    destruct (ps (f_t f) x) as [s0|] eqn:P; [|discriminate Hg]. inversion Hg; subst gs.
    destruct Hgin as [<-|[]]. destruct Hs as [<-|[]]. exists x. split; [left; reflexivity|exact P].
  - destruct v; try discriminate Hg. destruct o as [[x|]|]; [| |discriminate Hg].
    + destruct (ps (f_t f) x) as [s0|] eqn:P; [|discriminate Hg]. inversion Hg; subst gs.
      destruct Hgin as [<-|[]]. destruct Hs as [<-|[]]. exists x. split; [left; reflexivity|exact P].
    + inversion Hg; subst gs. destruct Hgin as [<-|[]]. destruct Hs.
  - destruct v; try discriminate Hg. destruct o as [[|x l]|]; [| |discriminate Hg].
    + inversion Hg; subst gs. destruct Hgin as [<-|[]]. destruct Hs.
    + destruct (map_opt (ps (f_t f)) (x :: l)) as [ss|] eqn:M; [|discriminate Hg]. inversion Hg; subst gs.
      apply (Hvec _ _ M Hgin).
  - destruct v; try discriminate Hg. destruct Hact as [A|A]; rewrite A in Hg.
    + destruct (ps (f_t f) v) as [s0|] eqn:P; [|discriminate Hg]. inversion Hg; subst gs.
      destruct Hgin as [<-|[]]. destruct Hs as [<-|[]]. exists v. split; [left; reflexivity|exact P].
    + destruct v; discriminate Hg.
Qed.

Lemma nonother_action f : field_ok f -> f_ty f <> TyOther -> field_action f = ASet \/ field_action f = AAppend.
Proof.
  intros Hok Hn. unfold field_ok in Hok. destruct (f_ty f) eqn:T; try (contradiction Hn; reflexivity);
    destruct Hok as [A _]; unfold field_action; rewrite A; unfold default_action; fold (f_ty f); rewrite T; auto.
  unfold f_ty, from_syn_ty in T. destruct (f_syn f) as [|s0|s0|]; try discriminate T; auto;
    destruct s0; cbn in T; try discriminate T; destruct s0; discriminate T.
Qed.

Section AcceptedOf.
Variable d : dinput.
Variable bin : bytes.

Lemma group_accepted_of f v gs : field_ok f -> ty_ok f = true -> Forall (srt (f_t f) (f_icase f)) (scalars v) ->
  field_groups f v = Some (Some gs) -> field_form f gs -> fits f v ->
  Forall (group_accepted (built d bin) f) gs.
Proof.
  intros Hok Hty Hsr Hg Hform Hfit. unfold fits in Hfit. rewrite Hg in Hfit. destruct Hfit as [Hcnt Hfit].
  rewrite forallb_forall in Hfit. apply Forall_forall. intros g Hgin. split.
  - intros st. apply (verify_admits _ _ (bf_num f)); [apply bf_num_eq|apply Hfit; exact Hgin].
  - assert (Hnu : f_ty f <> TyUnit).
    { intros T. unfold field_groups in Hg. rewrite T in Hg. destruct v; discriminate Hg. }
    assert (Hvp : forall a0, field_action f = a0 -> a_vp (bf f) = Some (vp_of (is_count (Some a0)) (f_icase f) (f_t f))).
    { intros a0 <-. rewrite bf_vp_eq. unfold field_vp. destruct (f_ty f); try reflexivity. contradiction Hnu; reflexivity. }
    unfold field_form in Hform. unfold stored_vals. rewrite bf_action. unfold bf_dmissing.
    destruct (field_action f) eqn:A; try contradiction.
    + (* Set *) exists (vp_of false (f_icase f) (f_t f)). split; [apply (Hvp ASet eq_refl)|]. cbn [action_default_missing_value].
      destruct g as [|s0 g0]; [constructor|]. apply Forall_forall. intros s Hs.
      destruct (printed_scalars f v gs Hty Hg (or_introl A) _ s Hgin Hs) as [x [Hx Px]].
      rewrite Forall_forall in Hsr. apply (scalar_accepts _ (f_icase f) s x). apply (Hsr x Hx). exact Px.
    + (* Append *) exists (vp_of false (f_icase f) (f_t f)). split; [apply (Hvp AAppend eq_refl)|]. cbn [action_default_missing_value].
      destruct g as [|s0 g0]; [constructor|]. apply Forall_forall. intros s Hs.
      destruct (printed_scalars f v gs Hty Hg (or_intror A) _ s Hgin Hs) as [x [Hx Px]].
      rewrite Forall_forall in Hsr. apply (scalar_accepts _ (f_icase f) s x). apply (Hsr x Hx). exact Px.
    + (* SetTrue: the flag stores "true"; the field is a bool *)
      subst gs. destruct Hgin as [<-|[]].
      assert (Et : f_t f = TBool).
      { destruct (Ty_eq_dec (f_ty f) TyOther) as [T|T]; [|destruct (nonother_action f Hok T) as [X|X]; rewrite X in A; discriminate A].
        unfold field_ok in Hok. rewrite T in Hok.
        unfold field_action in A. destruct (f_action f) as [a0|]; [subst a0; contradiction Hok|]. apply Hok. exact A. }
      exists VPBool. split; [rewrite (Hvp ASetTrue eq_refl), Et; reflexivity|]. cbn [action_default_missing_value].
      repeat constructor.
    + (* Count *) destruct Hform as [n [-> _]]. apply repeat_spec in Hgin. subst g. split; [|reflexivity].
      assert (Et : f_t f = TU8).
      { destruct (Ty_eq_dec (f_ty f) TyOther) as [T|T]; [|destruct (nonother_action f Hok T) as [X|X]; rewrite X in A; discriminate A].
        unfold field_ok in Hok. rewrite T in Hok.
        unfold field_action in A. destruct (f_action f) as [a0|].
        - subst a0. apply Hok.
        - exfalso. unfold default_action in A. fold (f_ty f) in A. rewrite T in A. destruct (f_syn f), (f_t f); discriminate A. }
      unfold count_flag. rewrite bf_action, (Hvp ACount eq_refl), Et, bf_dmissing_eq, bf_num_eq, Hcnt. unfold bf_dmissing. rewrite A.
      repeat split; reflexivity.
Qed.

Lemma accepted_of_ok : forall ns vs, fields_only ns = true -> Forall (fun f => ty_ok f = true) (fields_of ns) ->
  ok_nodes ns vs -> printable ns vs -> fits_all ns vs -> accepted_nodes d bin ns vs.
Proof.
  induction ns as [|n t IH]; intros vs Hfo Hty Hok Hpr Hfit f v gs Hat Hg; [destruct Hat|].
  destruct n as [f'| |]; cbn [fields_only] in Hfo; try discriminate Hfo.
  destruct vs as [|v' vt]; [destruct Hat|]. cbn [at_node fields_of ok_nodes ok_node fits_all] in *.
  inversion Hty as [|? ? Hty1 Hty']; subst. destruct Hok as [[Hfok Hsr] Hokt]. destruct Hfit as [Hf1 Hf2].
  destruct Hat as [[-> ->]|Hat].
  - destruct (Hpr f v gs (or_introl (conj eq_refl eq_refl)) Hg) as [Hform _]. split; [exact Hform|].
    apply (group_accepted_of f v gs Hfok Hty1 Hsr Hg Hform Hf1).
  - assert (Hpr' : printable t vt) by (intros f0 v0 gs0 Hat0 Hg0; apply (Hpr f0 v0 gs0 (or_intror Hat0) Hg0)).
    apply (IH vt Hfo Hty' Hokt Hpr' Hf2 f v gs Hat Hg).
Qed.
End AcceptedOf.

(** ROUND TRIP AS AN EQUALITY, the class stated without the parser: [ok_nodes] (attribute combinations + scalars that parse
    back), [fits_all] (value ranges admit the printed group lengths), required fields mentioned *)
Theorem roundtrip_parse_class d bin vs argv :
  opt_struct d -> Forall takes_ok (fields_of (d_nodes d)) -> ok_nodes (d_nodes d) vs ->
  fits_all (d_nodes d) vs -> required_mentioned (d_nodes d) vs ->
  valid (with_bin (derive_cmd d) bin) = true -> print d vs = Some argv ->
  derived_parse d (bin :: argv) = PValue vs.
Proof.
  intros Hs Htk Hok Hfit Hrm Hv Hp. pose proof Hs as (Hfo & Hof & _ & _).
  apply (roundtrip_parse d bin vs argv Hs Htk Hok); [|exact Hrm|exact Hv|exact Hp].
  apply (accepted_of_ok d bin _ _ Hfo); [|exact Hok| |exact Hfit].
  - eapply Forall_impl; [|exact Hof]. intros f Hf. apply Hf.
  - apply (printable_nodes _ _ Hfo); [|exact Hok].
    apply Forall_forall. intros f Hf. pose proof (proj1 (Forall_forall _ _) Hof f Hf) as (H1 & H2 & _).
    pose proof (proj1 (Forall_forall _ _) Htk f Hf) as H3. auto.
Qed.
