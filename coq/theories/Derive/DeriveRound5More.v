(** Property C15, round 5: two small additions -- ASCII-caseless acceptance for enum fields under [ignore_case], and the
    in-place update of a present optional flatten along every SEQUENCE of updates. *)
From ClapModel Require Import Base.Bytes Base.Machine Base.Utf8.
From ClapModel Require Import Parse.Cmd Parse.Build Parse.Valid Parse.Matcher Parse.Errors Parse.Validator Parse.Parser.
From ClapModel Require Import Value.ValueBase Value.BoolParse Value.BoolParseProofs Value.PossibleValues Value.PossibleValuesProofs.
From ClapModel Require Import ParseProofs.TypedInv ParseProofs.TypedView ParseProofs.TypedWide.
From ClapModel Require Import Derive.DeriveModel Derive.DeriveProofs Derive.DeriveCmd Derive.DeriveArgs Derive.DeriveParse Derive.DeriveUpdate
                              Derive.DeriveEnum Derive.DeriveEnumField Derive.DeriveOptFlatten.
From Coq Require Import ZArith List Bool Lia.
Import ListNotations.
Open Scope N_scope.

(** under [ignore_case] an ASCII string that equals an ASCII name or alias of a kept variant (hidden or not) up to ASCII case
    passes the field's parser -- C04's [possible_caseless] at [enum_pvs] *)
Theorem enum_ascii_caseless cnt e i v n s :
  nth_error e i = Some v -> vv_skip v = false -> In n (name_and_aliases (vv_pv v)) ->
  is_ascii n = true -> is_ascii s = true -> ascii_ci_eq n s ->
  vp_parse (vp_of cnt true (TEnum e)) s = None.
Proof.
  intros Hn Hs Hin An As E. cbn [vp_of].
  apply (possible_caseless (enum_pvs e) (vv_pv v) (vv_hide v) n s); try assumption.
  apply enum_pvs_in. exists i, v. auto.
Qed.

(** every sequence of updates: a field reachable through required flattens and [Some] optional flattens that none of the
    matches names stays reachable with the same value *)
Theorem update_seq_frame_ato d ms : forall vs vs' i x,
  wf_nodes (d_nodes d) -> update_seq d vs ms = XOk vs' ->
  Forall (fun m => m_contains i m = false) ms ->
  field_ato (d_nodes d) vs i = Some x -> field_ato (d_nodes d) vs' i = Some x.
Proof.
  induction ms as [|m ms IH]; intros vs vs' i x W H Hall Hx; cbn [update_seq] in H.
  - inversion H; subst. exact Hx.
  - inversion Hall as [|? ? Hm Hms]; subst. xinv H.
    apply (IH r vs' i x W H Hms). apply (update_frame_ato d vs m r i x W E Hm Hx).
Qed.

Example enum_ascii_caseless_example :
  nth_error ex_henum 2 = Some (mkVv false {| pv_name := [100; 101; 108; 116; 97]; pv_aliases := [[100]] |} true)
  /\ is_ascii [100; 101; 108; 116; 97] = true /\ is_ascii [68; 101; 76; 116; 65] = true
  /\ ascii_ci_eq [100; 101; 108; 116; 97] [68; 101; 76; 116; 65]
  /\ vp_parse (vp_of false true (TEnum ex_henum)) [68; 101; 76; 116; 65] = None.
Proof. repeat split; vm_compute; reflexivity. Qed.

(** the UPDATE flavour of the generated argument ([command_for_update]: [.required(false)] on top) carries the same parser *)
Theorem enum_field_parser_update f e : f_t f = TEnum e -> f_ty f <> TyUnit ->
  a_vp (bu f) = Some (Cmd.VPPossible (f_icase f) (enum_pvs e))
  /\ a_ignore_case (bu f) = f_icase f
  /\ pv_coherent (bu f) = true.
Proof.
  intros Et Hnu.
  assert (Hic : a_ignore_case (bu f) = f_icase f).
  { destruct (arg_build_frame (field_arg true f)) as (_ & _ & _ & _ & _ & _ & _ & _ & _ & _ & _ & _ & H13 & _).
    rewrite H13, field_arg_update_closed. reflexivity. }
  assert (Hvp : a_vp (bu f) = Some (Cmd.VPPossible (f_icase f) (enum_pvs e))).
  { rewrite field_arg_update_closed. unfold arg_build, field_arg_cfu, field_vp. rewrite Et.
    destruct (f_ty f); try (contradiction Hnu; reflexivity);
      destruct (field_num f) as [r|], (f_default f) as [d|], (field_action f); reflexivity. }
  split; [exact Hvp|]. split; [exact Hic|]. unfold pv_coherent. rewrite Hvp, Hic. apply Bool.eqb_reflx.
Qed.

(** WHY [Option<bool>] must not be a flag: give the field the action the seeded change gave it ([SetTrue], here as an explicit
    attribute) and the round trip breaks -- [None] prints to the empty line, which parses to [Some(false)] (the flag's implied
    default is stored by every parse) *)
Definition f_optbool_flag : field :=
  mkField [97] (SynOption SynPath) TBool (KLong [97;97]) (Some ASetTrue) None None None None false.
Definition d_optbool_flag : dinput := mkDinput [112; 114; 111; 103] [83] (NCons (NArg f_optbool_flag) NNil).
Theorem optbool_as_flag_refuted :
  exists d v argv v', print d v = Some argv /\ derived_parse d ([112; 114; 111; 103] :: argv) = PValue v' /\ v' <> v.
Proof.
  exists d_optbool_flag, [DOpt None], [], [DOpt (Some (SvBool false))].
  split; [vm_compute; reflexivity|]. split; [vm_compute; reflexivity|]. discriminate.
Qed.

(** non-vacuity of [names_disjoint] under [ignore_case] for an enum with two kept variants, one of them hidden *)
(** two ASCII names that are different up to case cannot both match one string caselessly *)
Lemma caseless_apart n1 n2 s :
  is_ascii n1 = true -> is_ascii n2 = true ->
  map ascii_lower n1 <> map ascii_lower n2 -> fold_str n1 <> fold_str n2 ->
  eq_ignore_case uni n1 s = true -> eq_ignore_case uni n2 s = true -> False.
Proof.
  intros A1 A2 D1 D2 E1 E2. apply eq_ignore_case_spec in E1, E2. unfold caseless_eq, uni in E1, E2.
  rewrite A1 in E1. rewrite A2 in E2. cbn [andb] in E1, E2. destruct (is_ascii s).
  - unfold ascii_ci_eq in E1, E2. apply D1. rewrite E1, E2. reflexivity.
  - apply D2. rewrite E1, E2. reflexivity.
Qed.

Lemma ex_henum_disjoint_ci : names_disjoint true ex_henum.
Proof.
  intros i j pi pj s Hi Hj Mi Mj. apply lits_spec in Hi, Hj.
  destruct Hi as (v & Hi & Si & ->), Hj as (w & Hj & Sj & ->).
  unfold pv_matches in Mi, Mj. apply existsb_exists in Mi, Mj.
  destruct Mi as (a & Ia & Ea), Mj as (b & Ib & Eb).
  destruct i as [|[|[|i]]]; cbn in Hi; try (destruct i; discriminate Hi); inversion Hi; subst v; try discriminate Si;
  destruct j as [|[|[|j]]]; cbn in Hj; try (destruct j; discriminate Hj); inversion Hj; subst w; try discriminate Sj;
  try reflexivity; exfalso; cbn in Ia, Ib;
  repeat match goal with H : _ \/ _ |- _ => destruct H | H : False |- _ => destruct H end; subst a b;
  (eapply (caseless_apart _ _ s); [| | | |exact Ea|exact Eb]; vm_compute; try reflexivity; discriminate).
Qed.

(** [EnumValueParser::parse_ref] returns the first matching element of [value_variants()] (C04's [enum_parse]: its index [k]
    among the kept variants); the derive model reads the stored string again with [from_str] ([parse_scalar]).  The two agree:
    the [k]-th kept variant IS the declared variant the typed reading answers. *)
Lemma find_index_find {A B} (g : A -> B) (f : B -> bool) : forall l j k,
  find_index f (map g l) j = Some k ->
  exists x, find (fun a => f (g a)) l = Some x /\ nth_error l (k - j) = Some x /\ (j <= k)%nat.
Proof.
  induction l as [|a l IH]; intros j k H; cbn [map find_index] in H; [discriminate H|].
  cbn [find]. destruct (f (g a)) eqn:E.
  - inversion H; subst k. exists a. rewrite Nat.sub_diag. repeat split; auto.
  - destruct (IH (S j) k H) as [x [F [N L]]]. exists x. split; [exact F|]. split; [|lia].
    replace (k - j)%nat with (S (k - S j)) by lia. exact N.
Qed.

Theorem enum_parse_ref_variant e ic s k :
  enum_parse clap_unicode ic (map fst (enum_pvs e)) s = VOk k ->
  exists i pv, nth_error (lits e) k = Some (i, pv) /\ parse_scalar (TEnum e) ic s = Some (SvEnum i).
Proof.
  unfold enum_parse. destruct (utf8_valid s) eqn:U; cbn [negb]; [|discriminate].
  rewrite (enum_pvs_lits e 0). fold (lits e).
  destruct (find_index (fun pv => pv_matches clap_unicode pv s ic) (map snd (lits e)) 0) as [k'|] eqn:F; [|discriminate].
  intros H; inversion H; subst k'.
  destruct (find_index_find snd (fun pv => pv_matches clap_unicode pv s ic) (lits e) 0 k F) as [[i pv] [Ff [N _]]].
  rewrite Nat.sub_0_r in N. exists i, pv. split; [exact N|].
  cbn [parse_scalar]. rewrite U. cbn [negb]. unfold ve_from_str. change uni with clap_unicode. rewrite Ff. reflexivity.
Qed.
