(** Property C15, update for ALL argv: [try_update_from] leaves a field alone when the line does not name it, "names"
    being C10's [occurs] (KindSound.v): some token of the line selects the field's argument through the key map (long,
    inferred long, a character of a short cluster) -- no parser code.  For fields whose argument carries no default (for
    the others the statement is false: [C15_update_frame_argv_refuted]).

    C10's invariant [K] ([accepted_faithful]: every explicit entry of an accepted level is accounted for by the line or
    the environment), C06's [precedence] / [cmdline_phase_all_cl], then [C15_update_frame]. *)
From ClapModel Require Import Base.Bytes Base.Machine Base.Utf8.
From ClapModel Require Import Parse.Cmd Parse.Build Parse.Valid Parse.Matcher Parse.Errors Parse.Validator Parse.Parser.
From ClapModel Require Import ParseProofs.Totality ParseProofs.TotalityMain ParseProofs.Actions ParseProofs.Sources ParseProofs.Dispatch
                              ParseProofs.KindSound
                              ParseProofs.Unparse ParseProofs.UnparseProofs ParseProofs.UnparseTop
                              ParseProofs.UnparseSub ParseProofs.UnparseTrail ParseProofs.UnparseTree.
From ClapModel Require Import Derive.DeriveModel Derive.DeriveProofs Derive.DeriveCmd Derive.DeriveArgs Derive.DeriveParse Derive.DeriveUpdate Derive.DeriveFlat.
From Coq Require Import ZArith List Bool Lia.
From RecordUpdate Require Import RecordSet.
Import RecordSetNotations.
Import ListNotations.
Open Scope N_scope.

Section UpdateLine.
Variable d : dinput.
Variable bin : bytes.
Hypothesis Hfo : flat_nodes (d_nodes d) = true.
Hypothesis Hv : valid (with_bin (derive_cmd_for_update d) bin) = true.
Local Notation cu := (builtu d bin).

(** the update command of a struct with flattened structs, in closed form *)
Lemma builtuf_root :
  builtu d bin = build_self (root_cmd (d_name d) (map (field_arg true) (leaves (d_nodes d)))
                                     (struct_group (d_gid d) (d_nodes d) :: sgroups (d_nodes d)) (bin_of bin)).
Proof. unfold builtu, derive_cmd_for_update. rewrite (derive_cmd_flat true d Hfo), with_bin_root. reflexivity. Qed.
Lemma builtuf_args : c_args (builtu d bin) = bargs 1 (map (field_arg true) (leaves (d_nodes d)) ++ [help_arg]).
Proof.
  rewrite builtuf_root, root_built_args, build_args_bargs; [reflexivity|].
  apply Forall_app. split; [|constructor; [reflexivity|constructor]].
  apply Forall_forall. intros a Ha. apply in_map_iff in Ha. destruct Ha as [f [<- _]]. apply field_arg_update_groups.
Qed.
Lemma builtuf_subs : c_subs (builtu d bin) = [].
Proof. rewrite builtuf_root. apply root_built_subs. Qed.
Lemma builtuf_field f : In f (leaves (d_nodes d)) ->
  exists a, In a (c_args (builtu d bin)) /\ a_id a = f_id f /\ a_env a = None /\ a_default_ifs a = []
            /\ a_default a = bf_default f.
Proof.
  intros Hf. rewrite builtuf_args.
  destruct (Forall2_in_l _ _ _ (field_arg true f) (bargs_spec (map (field_arg true) (leaves (d_nodes d)) ++ [help_arg]) 1))
    as [a [Ha (H1 & H2 & H3 & _ & H5)]].
  { apply in_or_app. left. apply in_map. exact Hf. }
  exists a. split; [exact Ha|].
  destruct (bu_frame f) as (B1 & B2 & B3 & _ & B5). rewrite H1, H2, H3, H5. auto.
Qed.
Lemma builtuf_no_globals : forallb (fun a => negb (a_global a)) (c_args (builtu d bin)) = true.
Proof.
  apply forallb_forall. intros a Ha. rewrite builtuf_args in Ha.
  destruct (Forall2_in_r _ _ _ a (bargs_spec (map (field_arg true) (leaves (d_nodes d)) ++ [help_arg]) 1) Ha)
    as [a0 [Ha0 (_ & _ & _ & Hg & _)]].
  rewrite Hg. apply in_app_or in Ha0. destruct Ha0 as [Ha0|[<-|[]]].
  - apply in_map_iff in Ha0. destruct Ha0 as [f [<- _]]. destruct (bu_frame f) as (_ & _ & _ & G & _).
    rewrite G. reflexivity.
  - reflexivity.
Qed.

Lemma builtu_app : assert_app cu = true.
Proof. unfold builtu. apply valid_assert_app. exact Hv. Qed.
Lemma builtu_is_set f : is_set f cu = f set_root || f settings_none.
Proof. rewrite builtuf_root. apply root_built_is_set. Qed.
Lemma update_plain : plain (with_bin (derive_cmd_for_update d) bin) = true.
Proof. unfold derive_cmd_for_update. rewrite (derive_cmd_flat true d Hfo), with_bin_root. reflexivity. Qed.
Lemma builtu_no_globals_tree :
  no_globals (build_recursive (S (S (depth (build_self (with_bin (derive_cmd_for_update d) bin))))) (with_bin (derive_cmd_for_update d) bin)) = true.
Proof.
  fold cu. cbn [build_recursive]. fold cu. apply no_globals_intro.
  - rewrite (proj2 (set_subs_args _ _)), builtuf_subs. reflexivity.
  - rewrite (proj1 (set_subs_args _ _)). apply builtuf_no_globals.
Qed.

(** an argument without default that the line does not name has no entry in the matches of an accepted line *)
Lemma unoccurring_absent toks st a : In a (c_args cu) -> a_env a = None -> a_default_ifs a = [] -> a_default a = [] ->
  (forall a2, In a2 (c_args cu) -> a_id a2 = a_id a -> ~ occurs cu toks a2) ->
  get_matches_with (S (S (depth cu))) cu toks ps_new = ROk st ->
  fm_get (a_id a) (mt_args (mt st)) = None.
Proof.
  intros Ha Henv Hifs Hdef Hocc Hr.
  destruct (precedence (S (depth cu)) cu toks ps_new st (assert_app_ids_distinct cu builtu_app) Hr)
    as (st_c & st1 & st2 & Ec & Er & _ & _ & Hprec).
  destruct (in_split _ _ Ha) as [pre [post Hsplit]]. specialize (Hprec pre a post Hsplit).
  destruct (fm_get (a_id a) (mt_args (mt st1))) as [m1|] eqn:G1.
  - exfalso.
    pose proof (cmdline_phase_all_cl (S (depth cu)) cu toks ps_new st_c st1 eq_refl Ec Er) as Hcl.
    pose proof (fm_get_forall _ _ _ Hcl G1) as Hsrc.
    pose proof (accepted_faithful (with_bin (derive_cmd_for_update d) bin) toks st update_plain Hv Hr) as Hf.
    fold cu in Hf.
    assert (Hin : In (a_id a, m1) (explicit_entries (mt st))).
    { unfold explicit_entries. apply filter_In. split; [apply (Relations.fm_get_In _ _ _ Hprec)|].
      cbn [snd]. unfold check_explicit_m. rewrite Hsrc. reflexivity. }
    destruct (Hf _ _ Hin) as [[_ [a2 [[Ha2 Ho2] [Eid|Hg]]]]|[Hs _]].
    + apply (Hocc a2 Ha2 Eid Ho2).
    + apply (assert_app_group_ids cu a builtu_app Ha _ Hg).
    + rewrite Hsrc in Hs. discriminate Hs.
  - rewrite Henv in Hprec. destruct Hprec as [st_a [ch [_ [Hch Hres]]]].
    inversion Hch as [l1 i p dd l2 Hr0 Hx1 Hx2 Hx3|Hno Ech]; subst.
    + rewrite Hifs in Hr0. destruct l1; discriminate Hr0.
    + rewrite Hdef in Hres. exact Hres.
Qed.

End UpdateLine.

(** UPDATE CHANGES ONLY WHAT THE LINE NAMES, ALL ARGV.  For every struct of argument fields whose update command passes
    clap's assertions, every line [toks] and every field whose argument has no default: if no token of the line names the
    field's argument ([occurs]: key-map selection, C10), a successful [try_update_from] leaves the field as it was. *)
Theorem update_unoccurring_untouched_flat d bin toks vs vs' f :
  flat_nodes (d_nodes d) = true -> In f (leaves (d_nodes d)) -> bf_default f = [] ->
  valid (with_bin (derive_cmd_for_update d) bin) = true ->
  (forall a, In a (c_args (builtu d bin)) -> a_id a = f_id f -> ~ occurs (builtu d bin) toks a) ->
  derived_update d vs (bin :: toks) = PValue vs' ->
  field_at (d_nodes d) vs' (f_id f) = field_at (d_nodes d) vs (f_id f).
Proof.
  intros Hfo Hf Hdef Hv Hocc Hupd.
  unfold derived_update in Hupd.
  assert (Hnb : is_set s_no_binary_name (derive_cmd_for_update d) = false).
  { unfold derive_cmd_for_update. rewrite (derive_cmd_flat true d Hfo). reflexivity. }
  assert (E : parse_top (derive_cmd_for_update d) (bin :: toks) = do_parse (with_bin (derive_cmd_for_update d) bin) toks).
  { unfold parse_top. rewrite Hnb. reflexivity. }
  rewrite E, do_parse_unfold, Hv in Hupd. cbn [negb] in Hupd. fold (builtu d bin) in Hupd.
  destruct (get_matches_with (S (S (depth (builtu d bin)))) (builtu d bin) toks ps_new) as [st|e st|n] eqn:G.
  2: { unfold finish_outcome in Hupd. fold (builtu d bin) in Hupd. rewrite (builtu_is_set d bin Hfo) in Hupd. discriminate Hupd. }
  2: { unfold finish_outcome in Hupd. destruct n; discriminate Hupd. }
  rewrite (finish_no_globals _ st (builtu_no_globals_tree d bin Hfo)) in Hupd.
  set (m := into_inner (mt st)) in *.
  cbn [of_outcome] in Hupd.
  destruct (update d vs m) as [r|k|s] eqn:U; cbn [of_xres] in Hupd; try discriminate Hupd.
  inversion Hupd; subst r; clear Hupd.
  destruct (builtuf_field d bin Hfo f Hf) as [a (Ha & Hid & Henv & Hifs & Hda)].
  assert (Gf : fm_get (a_id a) (mt_args (mt st)) = None).
  { apply (unoccurring_absent d bin Hfo Hv toks st a Ha Henv Hifs (eq_trans Hda Hdef)); [|exact G].
    intros a2 Ha2 E2. apply (Hocc a2 Ha2). rewrite E2. exact Hid. }
  rewrite Hid in Gf.
  apply (proj1 (proj2 frame_field_at) (d_nodes d) m vs vs' (f_id f)).
  - apply (update_frame d vs m vs' U).
  - rewrite m_contains_get. unfold m. cbn [into_inner ms_args]. rewrite Gf. reflexivity.
Qed.

(** the struct-of-fields instance *)
Theorem update_unoccurring_untouched d bin toks vs vs' f :
  fields_only (d_nodes d) = true -> In f (fields_of (d_nodes d)) -> bf_default f = [] ->
  valid (with_bin (derive_cmd_for_update d) bin) = true ->
  (forall a, In a (c_args (builtu d bin)) -> a_id a = f_id f -> ~ occurs (builtu d bin) toks a) ->
  derived_update d vs (bin :: toks) = PValue vs' ->
  field_at (d_nodes d) vs' (f_id f) = field_at (d_nodes d) vs (f_id f).
Proof.
  intros Hfo Hf. destruct (fields_flat _ Hfo) as (Hfl & El & _). apply (update_unoccurring_untouched_flat d bin toks vs vs' f Hfl).
  rewrite El. exact Hf.
Qed.
