(** Property C15: the generated command of a struct of argument fields and FLATTENED structs (any nesting, optional or
    not; no subcommand field), in closed form: the arguments are those of the leaf fields in declaration order, the
    groups are the struct groups, nothing else is touched. *)
From ClapModel Require Import Base.Bytes Base.Machine Base.Utf8.
From ClapModel Require Import Parse.Cmd Parse.Build Parse.Valid Parse.Matcher Parse.Errors Parse.Validator Parse.Parser.
From ClapModel Require Import ParseProofs.Totality ParseProofs.Unparse ParseProofs.UnparseTree.
From ClapModel Require Import Derive.DeriveModel Derive.DeriveProofs Derive.DeriveCmd Derive.DeriveArgs Derive.DeriveParse.
From Coq Require Import ZArith List Bool Lia.
From RecordUpdate Require Import RecordSet.
Import RecordSetNotations.
Import ListNotations.
Open Scope N_scope.

Fixpoint flat_node (n : node) {struct n} : bool :=
  match n with NArg _ => true | NFlatten _ _ body => flat_nodes body | NSub _ _ => false end
with flat_nodes (ns : nodes) {struct ns} : bool :=
  match ns with NNil => true | NCons n t => flat_node n && flat_nodes t end.

Fixpoint leaves_node (n : node) {struct n} : list field :=
  match n with NArg f => [f] | NFlatten _ _ body => leaves body | NSub _ _ => [] end
with leaves (ns : nodes) {struct ns} : list field :=
  match ns with NNil => [] | NCons n t => leaves_node n ++ leaves t end.

Fixpoint sgroups_node (n : node) {struct n} : list group :=
  match n with NArg _ => [] | NFlatten _ gid body => struct_group gid body :: sgroups body | NSub _ _ => [] end
with sgroups (ns : nodes) {struct ns} : list group :=
  match ns with NNil => [] | NCons n t => sgroups_node n ++ sgroups t end.

Lemma fields_flat : forall ns, fields_only ns = true -> flat_nodes ns = true /\ leaves ns = fields_of ns /\ sgroups ns = [].
Proof.
  induction ns as [|n t IH]; intros H; [repeat split; reflexivity|].
  destruct n as [f| |]; cbn [fields_only] in H; try discriminate H. destruct (IH H) as (A & B & C).
  cbn [flat_nodes flat_node leaves leaves_node sgroups sgroups_node fields_of app]. rewrite A, B, C. repeat split; reflexivity.
Qed.

Definition augF (ovr : bool) (ns : nodes) : Prop := forall n al sf lf sfa lfa args gs subs s gsx v lv ev bn dn ab lab,
  flat_nodes ns = true ->
  augment_nodes ovr ns (mkCmd n al sf lf sfa lfa args gs subs s gsx v lv ev bn dn ab lab) =
  mkCmd n al sf lf sfa lfa (args ++ map (field_arg ovr) (leaves ns)) (gs ++ sgroups ns) subs s gsx v lv ev bn dn ab lab.
Definition augFn (ovr : bool) (nd : node) : Prop := forall n al sf lf sfa lfa args gs subs s gsx v lv ev bn dn ab lab,
  flat_node nd = true ->
  augment_node ovr nd (mkCmd n al sf lf sfa lfa args gs subs s gsx v lv ev bn dn ab lab) =
  mkCmd n al sf lf sfa lfa (args ++ map (field_arg ovr) (leaves_node nd)) (gs ++ sgroups_node nd) subs s gsx v lv ev bn dn ab lab.

Lemma augment_flat ovr :
  (forall nd, augFn ovr nd) /\ (forall ns, augF ovr ns) /\ (forall vs : variants, True).
Proof.
  apply derive_mutind.
  - intros f n al sf lf sfa lfa args gs subs s gsx v lv ev bn dn ab lab _.
    cbn [augment_node leaves_node sgroups_node map]. rewrite app_nil_r. reflexivity.
  - intros opt gid body IH n al sf lf sfa lfa args gs subs s gsx v lv ev bn dn ab lab H. cbn [flat_node] in H.
    cbn [augment_node leaves_node sgroups_node].
    change ((mkCmd n al sf lf sfa lfa args gs subs s gsx v lv ev bn dn ab lab)
              <| c_groups := c_groups (mkCmd n al sf lf sfa lfa args gs subs s gsx v lv ev bn dn ab lab) ++ [struct_group gid body] |>)
      with (mkCmd n al sf lf sfa lfa args (gs ++ [struct_group gid body]) subs s gsx v lv ev bn dn ab lab).
    rewrite (IH _ _ _ _ _ _ _ _ _ _ _ _ _ _ _ _ _ _ H). rewrite <- app_assoc. reflexivity.
  - intros opt vs _ n al sf lf sfa lfa args gs subs s gsx v lv ev bn dn ab lab H. discriminate H.
  - intros n al sf lf sfa lfa args gs subs s gsx v lv ev bn dn ab lab _. cbn [augment_nodes leaves sgroups map].
    rewrite !app_nil_r. reflexivity.
  - intros nd IHn t IHt n al sf lf sfa lfa args gs subs s gsx v lv ev bn dn ab lab H.
    cbn [flat_nodes] in H. apply andb_prop in H. destruct H as [H1 H2].
    cbn [augment_nodes leaves sgroups]. rewrite (IHn _ _ _ _ _ _ _ _ _ _ _ _ _ _ _ _ _ _ H1).
    rewrite (IHt _ _ _ _ _ _ _ _ _ _ _ _ _ _ _ _ _ _ H2). rewrite map_app, <- !app_assoc. reflexivity.
  - exact I.
  - intros; exact I.
Qed.

Lemma derive_cmd_flat ovr d : flat_nodes (d_nodes d) = true ->
  augment ovr (d_gid d) (d_nodes d) (cmd_new (d_name d)) =
  root_cmd (d_name d) (map (field_arg ovr) (leaves (d_nodes d))) (struct_group (d_gid d) (d_nodes d) :: sgroups (d_nodes d)) None.
Proof.
  intros H. unfold augment, cmd_new, root_cmd.
  change ((mkCmd (d_name d) [] None None [] [] [] [] [] settings_none settings_none None None None None None None None)
            <| c_groups := c_groups (mkCmd (d_name d) [] None None [] [] [] [] [] settings_none settings_none None None None None None None None)
                           ++ [struct_group (d_gid d) (d_nodes d)] |>)
    with (mkCmd (d_name d) [] None None [] [] [] [struct_group (d_gid d) (d_nodes d)] [] settings_none settings_none None None None None None None None).
  rewrite (proj1 (proj2 (augment_flat ovr)) _ _ _ _ _ _ _ _ _ _ _ _ _ _ _ _ _ _ _ H). reflexivity.
Qed.

Section Flat.
Variable d : dinput.
Variable bin : bytes.
Hypothesis Hfl : flat_nodes (d_nodes d) = true.

Lemma builtf_root :
  built d bin = build_self (root_cmd (d_name d) (map (field_arg false) (leaves (d_nodes d)))
                                     (struct_group (d_gid d) (d_nodes d) :: sgroups (d_nodes d)) (bin_of bin)).
Proof. rewrite built_eq. unfold derive_cmd. rewrite (derive_cmd_flat false d Hfl), with_bin_root. reflexivity. Qed.

Lemma flat_groups_nil : Forall (fun a => a_groups a = []) (map (field_arg false) (leaves (d_nodes d)) ++ [help_arg]).
Proof.
  apply Forall_app. split; [|constructor; [reflexivity|constructor]].
  apply Forall_forall. intros a Ha. apply in_map_iff in Ha. destruct Ha as [f [<- _]]. apply field_arg_groups.
Qed.
Lemma builtf_args : c_args (built d bin) = bargs 1 (map (field_arg false) (leaves (d_nodes d)) ++ [help_arg]).
Proof. rewrite builtf_root, root_built_args, build_args_bargs; [reflexivity|apply flat_groups_nil]. Qed.
Lemma builtf_groups : c_groups (built d bin) = struct_group (d_gid d) (d_nodes d) :: sgroups (d_nodes d).
Proof. rewrite builtf_root, root_built_groups, build_args_bargs; [reflexivity|apply flat_groups_nil]. Qed.
Lemma builtf_subs : c_subs (built d bin) = [].
Proof. rewrite builtf_root. apply root_built_subs. Qed.
Lemma builtf_is_set f : is_set f (built d bin) = f set_root || f settings_none.
Proof. rewrite builtf_root. apply root_built_is_set. Qed.
Lemma builtf_unbuilt : s_built (c_set (with_bin (derive_cmd d) bin)) = false.
Proof. unfold derive_cmd. rewrite (derive_cmd_flat false d Hfl), with_bin_root. reflexivity. Qed.
Lemma flat_no_binary_flag : is_set s_no_binary_name (derive_cmd d) = false.
Proof. unfold derive_cmd. rewrite (derive_cmd_flat false d Hfl). reflexivity. Qed.

Lemma sgroups_facts : forall ns g, In g (sgroups ns) ->
  g_required g = false /\ g_requires g = [] /\ g_conflicts g = [] /\ g_multiple g = true.
Proof.
  assert (H : (forall nd g, In g (sgroups_node nd) -> g_required g = false /\ g_requires g = [] /\ g_conflicts g = [] /\ g_multiple g = true)
              /\ (forall ns g, In g (sgroups ns) -> g_required g = false /\ g_requires g = [] /\ g_conflicts g = [] /\ g_multiple g = true)
              /\ (forall vs : variants, True)).
  { apply derive_mutind.
    - intros f g [].
    - intros opt gid body IH g [<-|Hin]; [|apply IH; exact Hin].
      unfold struct_group. destruct (has_flatten body); repeat split; reflexivity.
    - intros opt vs _ g [].
    - intros g [].
    - intros nd IHn t IHt g Hin. cbn [sgroups] in Hin. apply in_app_or in Hin. destruct Hin; [apply IHn|apply IHt]; assumption.
    - exact I.
    - intros; exact I. }
  apply H.
Qed.
End Flat.
