(** Property C15: the generated command of ANY struct of argument fields and flattened structs -- positionals included --
    lies in C02's class [conv], and its key map is what the derive input says: a [--long] / [-s] resolves to the field's
    built argument, the k-th positional field IN DECLARATION ORDER (through the flatten nesting) resolves from index k.
    (Generalises [C15_generated_command_conv] / [C15_generated_keys], which speak about structs of option fields; first
    step of the round trip for positional fields.) *)
From ClapModel Require Import Base.Bytes Base.Machine Base.Utf8.
From ClapModel Require Import Parse.Cmd Parse.Build Parse.Valid Parse.Matcher Parse.Errors Parse.Validator Parse.Parser.
From ClapModel Require Import ParseProofs.Totality ParseProofs.Actions ParseProofs.Sources
                              ParseProofs.Unparse ParseProofs.UnparseProofs ParseProofs.UnparseTop
                              ParseProofs.UnparseSub ParseProofs.UnparseTrail ParseProofs.UnparseTree.
From ClapModel Require Import Derive.DeriveModel Derive.DeriveProofs Derive.DeriveCmd Derive.DeriveArgs Derive.DeriveParse
                              Derive.DerivePost Derive.DeriveFlat Derive.DeriveTotal.
From Coq Require Import ZArith List Bool Lia.
From RecordUpdate Require Import RecordSet.
Import RecordSetNotations.
Import ListNotations.
Open Scope N_scope.

(** the built argument of every field, with the index [_build] gives a positional: positionals are numbered in order *)
Fixpoint annot (pc : N) (fs : list field) : list (option N * field) :=
  match fs with
  | [] => []
  | f :: t => if f_is_positional f then (Some pc, f) :: annot (pc + 1) t else (None, f) :: annot pc t
  end.
Definition built_of (p : option N * field) : arg :=
  match fst p with Some k => (bf (snd p)) <| a_index := Some k |> | None => bf (snd p) end.

Lemma bf_index f : a_index (bf f) = None. Proof. apply (bf_frame f). Qed.

Lemma bargs_annot : forall fs pc rest,
  bargs pc (map (field_arg false) fs ++ rest) = map built_of (annot pc fs) ++ bargs (pc + N.of_nat (length (filter f_is_positional fs))) rest.
Proof.
  induction fs as [|f t IH]; intros pc rest.
  - cbn [map app annot filter length N.of_nat]. rewrite N.add_0_r. reflexivity.
  - cbn [map app bargs annot filter]. rewrite <- bf_unfold, bf_positional, bf_index. cbn [is_some negb]. rewrite andb_true_r.
    destruct (f_is_positional f); cbn [map length andb]; rewrite IH.
    + unfold built_of at 1. cbn [fst snd app]. f_equal. f_equal. f_equal. rewrite Nat2N.inj_succ. lia.
    + unfold built_of at 1. cbn [fst snd app]. reflexivity.
Qed.

Lemma annot_fields : forall fs pc, map snd (annot pc fs) = fs.
Proof. induction fs as [|f t IH]; intros pc; [reflexivity|]. cbn [annot]. destruct (f_is_positional f); cbn [map snd]; rewrite IH; reflexivity. Qed.

(** indices handed out from [pc] on are [>= pc], strictly increasing, and given exactly to the positional fields *)
Lemma annot_index : forall fs pc k f, In (Some k, f) (annot pc fs) -> pc <= k /\ f_is_positional f = true.
Proof.
  induction fs as [|g t IH]; intros pc k f H; [destruct H|]. cbn [annot] in H. destruct (f_is_positional g) eqn:P.
  - destruct H as [E|H]; [inversion E; subst; split; [lia|exact P]|]. destruct (IH _ _ _ H). split; [lia|assumption].
  - destruct H as [E|H]; [discriminate E|]. apply (IH _ _ _ H).
Qed.
Lemma annot_none : forall fs pc f, In (None, f) (annot pc fs) -> f_is_positional f = false.
Proof.
  induction fs as [|g t IH]; intros pc f H; [destruct H|]. cbn [annot] in H. destruct (f_is_positional g) eqn:P.
  - destruct H as [E|H]; [discriminate E|]. apply (IH _ _ H).
  - destruct H as [E|H]; [inversion E; subst; exact P|]. apply (IH _ _ H).
Qed.
Lemma annot_inj : forall fs pc k f f', In (Some k, f) (annot pc fs) -> In (Some k, f') (annot pc fs) -> f = f'.
Proof.
  induction fs as [|g t IH]; intros pc k f f' H H'; [destruct H|]. cbn [annot] in H, H'. destruct (f_is_positional g).
  - destruct H as [E|H], H' as [E'|H'].
    + inversion E; inversion E'; subst; reflexivity.
    + inversion E; subst. destruct (annot_index _ _ _ _ H'). lia.
    + inversion E'; subst. destruct (annot_index _ _ _ _ H). lia.
    + apply (IH _ _ _ _ H H').
  - destruct H as [E|H]; [discriminate E|]. destruct H' as [E'|H']; [discriminate E'|]. apply (IH _ _ _ _ H H').
Qed.

Lemma idx_conv (a : arg) k : conv_arg (a <| a_index := Some k |>) = conv_arg a /\ a_is_multiple (a <| a_index := Some k |>) = a_is_multiple a
  /\ a_is_positional (a <| a_index := Some k |>) = a_is_positional a /\ arg_keys (a <| a_index := Some k |>) = [Cmd.KPos k]
  /\ a_index (a <| a_index := Some k |>) = Some k.
Proof. destruct a. repeat split; reflexivity. Qed.

Lemma get_pos_first c k a : In a (c_args c) -> In (Cmd.KPos k) (arg_keys a) ->
  (forall a', In a' (c_args c) -> In (Cmd.KPos k) (arg_keys a') -> a' = a) -> get_pos c k = Some a.
Proof.
  intros Ha Hk Hu. unfold get_pos.
  destruct (find_some_ex (fun p => match fst p with Cmd.KPos n' => n' =? k | _ => false end) (keymap c) (Cmd.KPos k, a))
    as [[k' a'] Hf].
  - apply in_keymap. auto.
  - cbn. apply N.eqb_refl.
  - rewrite Hf. cbn [opt_map snd]. apply find_some in Hf. destruct Hf as [Hin Hp]. cbn [fst] in Hp.
    destruct k' as [s'|l'|n]; try discriminate. apply N.eqb_eq in Hp. subst n.
    apply in_keymap in Hin. destruct Hin as [Ha' Hk']. rewrite (Hu a' Ha' Hk'). reflexivity.
Qed.

Lemma bargs_help pc : bargs pc [help_arg] = [hb].
Proof. rewrite bargs_opts; [unfold hb; reflexivity|constructor; [reflexivity|constructor]]. Qed.

Section Keys.
Variable d : dinput.
Variable bin : bytes.
Hypothesis Hfl : flat_nodes (d_nodes d) = true.
Local Notation c := (built d bin).
Local Notation fs := (leaves (d_nodes d)).

Lemma builtk_args : c_args c = map built_of (annot 1 fs) ++ [hb].
Proof. rewrite (builtf_args d bin Hfl), bargs_annot, bargs_help. reflexivity. Qed.

Lemma builtk_cases a : In a (c_args c) -> (exists p, In p (annot 1 fs) /\ a = built_of p) \/ a = hb.
Proof.
  rewrite builtk_args. intros H. apply in_app_or in H. destruct H as [H|[H|[]]]; [|right; auto].
  apply in_map_iff in H. destruct H as [p [E Hp]]. left. exists p. auto.
Qed.

Lemma built_of_keys p : arg_keys (built_of p) =
  match fst p with Some k => [Cmd.KPos k] | None => match f_kind (snd p) with KLong l => [Cmd.KLong l] | KShort s => [Cmd.KShort s] | KPos => [] end end.
Proof. destruct p as [[k|] f]; unfold built_of; cbn [fst snd]; [apply idx_conv|apply bf_keys]. Qed.

(** the class: option fields are typable and not the help flag's; option names pairwise distinct *)
Definition opt_kind_ok (f : field) : Prop := f_is_positional f = false -> kind_ok (f_kind f) = true.
Hypothesis Hk : Forall opt_kind_ok fs.
Hypothesis Hnd : NoDup (map f_kind (filter (fun f => negb (f_is_positional f)) fs)).

Lemma opt_in_filter f : In f fs -> f_is_positional f = false -> In f (filter (fun f => negb (f_is_positional f)) fs).
Proof. intros H P. apply filter_In. split; [exact H|]. rewrite P. reflexivity. Qed.

Lemma annot_in_none f : In f fs -> f_is_positional f = false -> In (None, f) (annot 1 fs).
Proof.
  intros H P. generalize 1. revert H. generalize fs. induction l as [|g t IH]; intros H pc; [destruct H|].
  cbn [annot]. destruct H as [->|H].
  - rewrite P. left. reflexivity.
  - destruct (f_is_positional g); right; apply IH; exact H.
Qed.

Lemma lookup_long_all f l : In f fs -> f_kind f = KLong l -> get_long c l = Some (bf f).
Proof.
  intros Hf Ek. assert (P : f_is_positional f = false) by (unfold f_is_positional; rewrite Ek; reflexivity).
  apply get_long_first.
  - rewrite builtk_args. apply in_or_app. left. apply in_map_iff. exists (None, f). split; [reflexivity|apply annot_in_none; assumption].
  - rewrite bf_keys, Ek. left. reflexivity.
  - intros a' Ha' Hk'. destruct (builtk_cases a' Ha') as [[[[k|] f'] [Hp ->]]| ->].
    + rewrite built_of_keys in Hk'. cbn [fst] in Hk'. destruct Hk' as [E|[]]. discriminate E.
    + rewrite built_of_keys in Hk'. cbn [fst snd] in Hk'. unfold built_of. cbn [fst snd]. f_equal.
      pose proof (annot_none _ _ _ Hp) as P'.
      assert (Hf' : In f' fs). { rewrite <- (annot_fields fs 1). apply in_map_iff. exists (None, f'). auto. }
      apply (nodup_map_inj f_kind _ f' f Hnd (opt_in_filter f' Hf' P') (opt_in_filter f Hf P)). rewrite Ek.
      revert Hk'. destruct (f_kind f') as [l'|c'|]; cbn [In]; intros Hk'; [| |destruct Hk']; destruct Hk' as [E|[]]; inversion E; subst; reflexivity.
    + exfalso. rewrite hb_keys in Hk'. destruct Hk' as [E|[E|[]]]; [discriminate|]. inversion E; subst.
      pose proof (proj1 (Forall_forall _ _) Hk f Hf P) as Hkf. rewrite Ek in Hkf. cbn in Hkf. discriminate Hkf.
Qed.

Lemma lookup_short_all f s : In f fs -> f_kind f = KShort s -> get_short c s = Some (bf f).
Proof.
  intros Hf Ek. assert (P : f_is_positional f = false) by (unfold f_is_positional; rewrite Ek; reflexivity).
  apply get_short_first.
  - rewrite builtk_args. apply in_or_app. left. apply in_map_iff. exists (None, f). split; [reflexivity|apply annot_in_none; assumption].
  - rewrite bf_keys, Ek. left. reflexivity.
  - intros a' Ha' Hk'. destruct (builtk_cases a' Ha') as [[[[k|] f'] [Hp ->]]| ->].
    + rewrite built_of_keys in Hk'. cbn [fst] in Hk'. destruct Hk' as [E|[]]. discriminate E.
    + rewrite built_of_keys in Hk'. cbn [fst snd] in Hk'. unfold built_of. cbn [fst snd]. f_equal.
      pose proof (annot_none _ _ _ Hp) as P'.
      assert (Hf' : In f' fs). { rewrite <- (annot_fields fs 1). apply in_map_iff. exists (None, f'). auto. }
      apply (nodup_map_inj f_kind _ f' f Hnd (opt_in_filter f' Hf' P') (opt_in_filter f Hf P)). rewrite Ek.
      revert Hk'. destruct (f_kind f') as [l'|c'|]; cbn [In]; intros Hk'; [| |destruct Hk']; destruct Hk' as [E|[]]; inversion E; subst; reflexivity.
    + exfalso. rewrite hb_keys in Hk'. destruct Hk' as [E|[E|[]]]; [|discriminate]. inversion E; subst.
      pose proof (proj1 (Forall_forall _ _) Hk f Hf P) as Hkf. rewrite Ek in Hkf. cbn in Hkf. discriminate Hkf.
Qed.

(** the k-th positional field resolves from index k *)
Lemma lookup_pos_all k f : In (Some k, f) (annot 1 fs) -> get_pos c k = Some ((bf f) <| a_index := Some k |>).
Proof.
  intros Hp. apply get_pos_first.
  - rewrite builtk_args. apply in_or_app. left. apply in_map_iff. exists (Some k, f). split; [reflexivity|exact Hp].
  - destruct (idx_conv (bf f) k) as (_ & _ & _ & K & _). rewrite K. left. reflexivity.
  - intros a' Ha' Hk'. destruct (builtk_cases a' Ha') as [[[[k'|] f'] [Hp' ->]]| ->].
    + rewrite built_of_keys in Hk'. cbn [fst] in Hk'. destruct Hk' as [E|[]]. inversion E; subst k'.
      rewrite (annot_inj _ _ _ _ _ Hp' Hp). reflexivity.
    + exfalso. rewrite built_of_keys in Hk'. cbn [fst snd] in Hk'. destruct (f_kind f'); cbn [In] in Hk'; [destruct Hk' as [E|[]]; discriminate E|destruct Hk' as [E|[]]; discriminate E|destruct Hk'].
    + exfalso. rewrite hb_keys in Hk'. destruct Hk' as [E|[E|[]]]; discriminate E.
Qed.

(** * the generated command lies in C02's class *)
Definition is_kpos (p : key * arg) : bool := match fst p with Cmd.KPos _ => true | _ => false end.

Lemma count_kpos : forall l pc,
  (forall p, In p (annot pc l) -> fst p = None -> f_is_positional (snd p) = false) ->
  length (filter is_kpos (flat_map (fun a => map (fun k => (k, a)) (arg_keys a)) (map built_of (annot pc l))))
  = length (filter f_is_positional l).
Proof.
  induction l as [|f t IH]; intros pc H; [reflexivity|]. cbn [annot filter]. destruct (f_is_positional f) eqn:P.
  - cbn [map flat_map]. rewrite built_of_keys. cbn [fst map app filter is_kpos length]. f_equal. apply IH.
    intros p Hp. apply H. cbn [annot]. rewrite P. right. exact Hp.
  - cbn [map flat_map]. rewrite built_of_keys. cbn [fst snd]. rewrite filter_app.
    replace (filter is_kpos (map (fun k => (k, built_of (None, f))) match f_kind f with KLong l => [Cmd.KLong l] | KShort s => [Cmd.KShort s] | KPos => [] end)) with (@nil (key * arg)).
    + cbn [app]. apply IH. intros p Hp. apply H. cbn [annot]. rewrite P. right. exact Hp.
    + destruct (f_kind f); reflexivity.
Qed.

Lemma builtk_pos_count : positional_count c = N.of_nat (length (filter f_is_positional fs)).
Proof.
  unfold positional_count, keymap. rewrite builtk_args, flat_map_app, filter_app, app_length.
  change (fun p : key * arg => match fst p with Cmd.KPos _ => true | _ => false end) with is_kpos.
  rewrite count_kpos; [|intros p Hp E; destruct p as [[k|] f]; [discriminate E|apply (annot_none _ _ _ Hp)]].
  cbn [flat_map]. rewrite hb_keys. cbn. rewrite Nat.add_0_r. reflexivity.
Qed.

Hypothesis Hv : valid (with_bin (derive_cmd d) bin) = true.
(** a multi-valued positional ([Vec<T>]: [num_args(1..)] / Append) is the last positional *)
Hypothesis Hml : forall k f, In (Some k, f) (annot 1 fs) -> a_is_multiple (bf f) = true ->
  k = N.of_nat (length (filter f_is_positional fs)).

Theorem built_conv_all : conv c = true.
Proof.
  unfold conv. rewrite (builtg_app d bin Hv). rewrite !(builtf_is_set d bin Hfl).
  cbn [s_sub_precedence s_allow_missing_pos set_root settings_none orb negb andb].
  assert (Hca : forallb conv_arg (c_args c) = true).
  { apply forallb_forall. intros a Ha. destruct (builtk_cases a Ha) as [[[[k|] f] [_ ->]]| ->]; unfold built_of; cbn [fst snd].
    - destruct (idx_conv (bf f) k) as (E & _). rewrite E. apply (bf_frame f).
    - apply (bf_frame f).
    - reflexivity. }
  rewrite Hca. cbn [andb]. apply negb_true_iff. unfold low_index_multiple.
  destruct (existsb _ (positionals c)) eqn:E; [|reflexivity]. exfalso.
  apply existsb_exists in E. destruct E as [a [Ha Hp]]. unfold positionals in Ha. apply filter_In in Ha. destruct Ha as [Ha Hpos].
  apply andb_prop in Hp. destruct Hp as [Hm Hc]. rewrite builtk_pos_count in Hc.
  destruct (builtk_cases a Ha) as [[[[k|] f] [Hin ->]]| ->]; unfold built_of in *; cbn [fst snd] in *.
  - destruct (idx_conv (bf f) k) as (_ & E2 & _ & _ & E5). rewrite E2 in Hm. rewrite E5 in Hc. cbn [opt_default] in Hc.
    rewrite <- (Hml k f Hin Hm), N.eqb_refl in Hc. discriminate Hc.
  - rewrite bf_positional, (annot_none _ _ _ Hin) in Hpos. discriminate Hpos.
  - discriminate Hpos.
Qed.

Theorem built_no_overrides_all : no_overrides c = true.
Proof.
  unfold no_overrides. apply forallb_forall. intros a Ha.
  destruct (norel_arg c a (builtg_norel d bin Hfl) Ha) as (_ & _ & _ & _ & _ & _ & O & _). rewrite O. reflexivity.
Qed.

End Keys.

(** * non-vacuity: [{ vv: bool, p: u8 (positional), x: String (-x), #[flatten] { rest: Vec<String> (positional) } }] *)
Module KeysEx.
Definition fl : field := mkField [118] SynPath TBool (KLong [118;118]) None None None None None false.
Definition fp : field := mkField [112] SynPath TU8 KPos None None None None None false.
Definition fx : field := mkField [120] SynPath TStr (KShort 120) None None None None None false.
Definition fr : field := mkField [114] (SynVec SynPath) TStr KPos None None None None None false.
Definition d : dinput := mkDinput b_prog [83]
  (NCons (NArg fl) (NCons (NArg fp) (NCons (NArg fx) (NCons (NFlatten false [73] (NCons (NArg fr) NNil)) NNil)))).
Lemma ex_flat : flat_nodes (d_nodes d) = true. Proof. reflexivity. Qed.
Lemma ex_annot : annot 1 (leaves (d_nodes d)) = [(None, fl); (Some 1, fp); (None, fx); (Some 2, fr)]. Proof. reflexivity. Qed.
Lemma ex_kinds : Forall opt_kind_ok (leaves (d_nodes d)).
Proof. repeat (apply Forall_cons || apply Forall_nil); intros H; vm_compute in H |- *; try reflexivity; discriminate H. Qed.
Lemma ex_nodup : NoDup (map f_kind (filter (fun f => negb (f_is_positional f)) (leaves (d_nodes d)))).
Proof. cbn. repeat constructor; cbn; intuition discriminate. Qed.
Lemma ex_valid : valid (with_bin (derive_cmd d) b_prog) = true. Proof. vm_compute. reflexivity. Qed.
Lemma ex_multi_last : forall k f, In (Some k, f) (annot 1 (leaves (d_nodes d))) -> a_is_multiple (bf f) = true ->
  k = N.of_nat (length (filter f_is_positional (leaves (d_nodes d)))).
Proof.
  intros k f Hin Hm. rewrite ex_annot in Hin. destruct Hin as [E|[E|[E|[E|[]]]]]; inversion E; subst; clear E.
  - vm_compute in Hm. discriminate Hm.
  - reflexivity.
Qed.
(** by the theorems: the command is conventional; index 1 is [p], index 2 is [rest] (inside the flattened struct) *)
Theorem ex_conv : conv (built d b_prog) = true.
Proof. exact (built_conv_all d b_prog ex_flat ex_valid ex_multi_last). Qed.
Theorem ex_pos : get_pos (built d b_prog) 1 = Some ((bf fp) <| a_index := Some 1 |>)
  /\ get_pos (built d b_prog) 2 = Some ((bf fr) <| a_index := Some 2 |>)
  /\ get_long (built d b_prog) [118;118] = Some (bf fl) /\ get_short (built d b_prog) 120 = Some (bf fx).
Proof.
  split; [apply (lookup_pos_all d b_prog ex_flat); rewrite ex_annot; right; left; reflexivity|].
  split; [apply (lookup_pos_all d b_prog ex_flat); rewrite ex_annot; right; right; right; left; reflexivity|].
  split; [apply (lookup_long_all d b_prog ex_flat ex_kinds ex_nodup fl); [left; reflexivity|reflexivity]|].
  apply (lookup_short_all d b_prog ex_flat ex_kinds ex_nodup fx); [right; right; left; reflexivity|reflexivity].
Qed.
End KeysEx.
