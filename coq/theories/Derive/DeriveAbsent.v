(** Property C15, round 5 (2), ALL argv: an argument the line does not name and that carries no default leaves NO entry
    in the matches of an accepted parse, and extraction then gives the field its "absent" value -- [None] for [Option<T>]
    (in particular [Option<bool>]: NOT [Some(false)]), [None] for [Option<Option<T>>] / [Option<Vec<T>>], the empty vector for
    [Vec<T>].  "Names" is C10's [occurs] (key-map selection: long, inferred long, a character of a short cluster).
    The parse-command counterpart of DeriveUpdateLine.v. *)
From ClapModel Require Import Base.Bytes Base.Machine Base.Utf8.
From ClapModel Require Import Parse.Cmd Parse.Build Parse.Valid Parse.Matcher Parse.Errors Parse.Validator Parse.Parser.
From ClapModel Require Import ParseProofs.Totality ParseProofs.TotalityMain ParseProofs.Actions ParseProofs.Sources ParseProofs.Dispatch
                              ParseProofs.KindSound ParseProofs.TypedInv
                              ParseProofs.Unparse ParseProofs.UnparseProofs ParseProofs.UnparseTop
                              ParseProofs.UnparseSub ParseProofs.UnparseTrail ParseProofs.UnparseTree.
From ClapModel Require Import Derive.DeriveModel Derive.DeriveProofs Derive.DeriveCmd Derive.DeriveArgs Derive.DeriveParse
                              Derive.DeriveFlat Derive.DeriveTotal.
From Coq Require Import ZArith List Bool Lia.
From RecordUpdate Require Import RecordSet.
Import RecordSetNotations.
Import ListNotations.
Open Scope N_scope.

(** * 1. the value extraction gives a field whose argument has no entry *)
Definition absent_value (f : field) : option dval :=
  match f_ty f with
  | TyUnit => Some DUnit
  | TyOption => Some (DOpt None)
  | TyOptionOption => Some (DOptOpt None)
  | TyVec => Some (DVec [])
  | TyOptionVec => Some (DOptVec None)
  | TyVecVec => Some (DVecVec [])
  | TyOptionVecVec => Some (DOptVecVec None)
  | TyOther => None            (* a plain [T]: extraction reports MissingRequiredArgument *)
  end.

Lemma field_value_absent f m v m' :
  fm_get (f_id f) (ms_args m) = None -> field_value f m = XOk (v, m') -> absent_value f = Some v /\ m' = m.
Proof.
  intros G H. unfold field_value, remove_one, remove_many, remove_occurrences, remove_typed in H.
  rewrite ?m_contains_get in H. rewrite G in H. unfold absent_value.
  destruct (f_ty f); cbn in H; try discriminate H; inversion H; subst; split; reflexivity.
Qed.

Lemma fm_get_none_remove {V} k i (l : list (id * V)) : fm_get i l = None -> fm_get i (fst (fm_remove k l)) = None.
Proof.
  induction l as [|[k0 v] t IH]; intros H; [reflexivity|]. rewrite fm_remove_fst_cons. cbn [fm_get] in H.
  destruct (beq k0 i) eqn:E; [discriminate H|]. destruct (beq k0 k); [exact H|]. cbn [fm_get]. rewrite E. apply IH. exact H.
Qed.

Lemma extract_absent :
  (forall n m v m' i, extract_node n m = XOk (v, m') -> fm_get i (ms_args m) = None ->
     fm_get i (ms_args m') = None
     /\ forall x, field_at_node n v i = Some x -> exists f, In f (leaves_node n) /\ f_id f = i /\ absent_value f = Some x)
  /\ (forall ns m vs m' i, extract_nodes ns m = XOk (vs, m') -> fm_get i (ms_args m) = None ->
     fm_get i (ms_args m') = None
     /\ forall x, field_at ns vs i = Some x -> exists f, In f (leaves ns) /\ f_id f = i /\ absent_value f = Some x)
  /\ (forall vs : variants, True).
Proof.
  apply derive_mutind; try (intros; exact I).
  - (* NArg *)
    intros f m v m' i H G. cbn [extract_node] in H. split.
    + apply field_value_shapes in H. destruct H as [_ [-> | ->]]; [exact G|]. cbn [m_remove ms_args].
      apply fm_get_none_remove. exact G.
    + intros x Hx. cbn [field_at_node] in Hx. destruct (beq (f_id f) i) eqn:E; [|discriminate Hx].
      apply beq_eq in E. subst i. inversion Hx; subst x.
      destruct (field_value_absent f m v m' G H) as [A _]. exists f. split; [left; reflexivity|]. split; [reflexivity|exact A].
  - (* NFlatten *)
    intros opt gid body IH m v m' i H G. cbn [extract_node] in H. destruct opt.
    + destruct (m_contains gid m).
      * xinv H. destruct r as [fs m1]. inversion H; subst. cbn [snd].
        destruct (IH _ _ _ i E G) as [A _]. split; [exact A|]. intros x Hx. discriminate Hx.
      * inversion H; subst. split; [exact G|]. intros x Hx. discriminate Hx.
    + xinv H. destruct r as [fs m1]. inversion H; subst. cbn [snd fst].
      destruct (IH _ _ _ i E G) as [A B]. split; [exact A|]. intros x Hx. cbn [field_at_node] in Hx.
      cbn [leaves_node]. apply (B x Hx).
  - (* NSub *)
    intros opt vs _ m v m' i H G. cbn [extract_node] in H. split.
    + destruct opt.
      * destruct (match ms_sub m with Some (name, _) => has_subcommand vs name | None => false end).
        -- xinv H. inversion H; subst. rewrite (sub_from_matches_args _ _ _ E). exact G.
        -- inversion H; subst. exact G.
      * xinv H. inversion H; subst. rewrite (sub_from_matches_args _ _ _ E). exact G.
    + intros x Hx. destruct v; discriminate Hx.
  - (* NNil *)
    intros m vs m' i H G. cbn in H. inversion H; subst. split; [exact G|]. intros x Hx. discriminate Hx.
  - (* NCons *)
    intros n IHn t IHt m vs m' i H G. cbn [extract_nodes] in H.
    xinv H. destruct r as [v m1]. xinv H. destruct r as [vt m2]. inversion H; subst. cbn [fst snd] in *.
    destruct (IHn _ _ _ i E G) as [A1 B1]. destruct (IHt _ _ _ i E0 A1) as [A2 B2]. split; [exact A2|].
    intros x Hx. cbn [field_at] in Hx. cbn [leaves].
    destruct (field_at_node n v i) as [y|] eqn:F.
    + inversion Hx; subst y. destruct (B1 x eq_refl) as [f [Hf Hr]]. exists f. split; [apply in_or_app; left; exact Hf|exact Hr].
    + destruct (B2 x Hx) as [f [Hf Hr]]. exists f. split; [apply in_or_app; right; exact Hf|exact Hr].
Qed.

(** * 2. an argument without default that the line does not name has no entry after an accepted parse *)
Section ParseLine.
Variable d : dinput.
Variable bin : bytes.
Hypothesis Hfo : flat_nodes (d_nodes d) = true.
Hypothesis Hv : valid (with_bin (derive_cmd d) bin) = true.
Local Notation c := (built d bin).

Lemma parse_plain : plain (with_bin (derive_cmd d) bin) = true.
Proof. unfold derive_cmd. rewrite (derive_cmd_flat false d Hfo), with_bin_root. reflexivity. Qed.

Lemma unoccurring_absent_parse toks st a : In a (c_args c) -> a_env a = None -> a_default_ifs a = [] -> a_default a = [] ->
  (forall a2, In a2 (c_args c) -> a_id a2 = a_id a -> ~ occurs c toks a2) ->
  get_matches_with (S (S (depth c))) c toks ps_new = ROk st ->
  fm_get (a_id a) (mt_args (mt st)) = None.
Proof.
  intros Ha Henv Hifs Hdef Hocc Hr. pose proof (builtg_app d bin Hv) as Happ.
  destruct (precedence (S (depth c)) c toks ps_new st (assert_app_ids_distinct c Happ) Hr)
    as (st_c & st1 & st2 & Ec & Er & _ & _ & Hprec).
  destruct (in_split _ _ Ha) as [pre [post Hsplit]]. specialize (Hprec pre a post Hsplit).
  destruct (fm_get (a_id a) (mt_args (mt st1))) as [m1|] eqn:G1.
  - exfalso.
    pose proof (cmdline_phase_all_cl (S (depth c)) c toks ps_new st_c st1 eq_refl Ec Er) as Hcl.
    pose proof (fm_get_forall _ _ _ Hcl G1) as Hsrc.
    pose proof (accepted_faithful (with_bin (derive_cmd d) bin) toks st parse_plain Hv Hr) as Hf.
    rewrite <- built_eq in Hf.
    assert (Hin : In (a_id a, m1) (explicit_entries (mt st))).
    { unfold explicit_entries. apply filter_In. split; [apply (Relations.fm_get_In _ _ _ Hprec)|].
      cbn [snd]. unfold check_explicit_m. rewrite Hsrc. reflexivity. }
    destruct (Hf _ _ Hin) as [[_ [a2 [[Ha2 Ho2] [Eid|Hg]]]]|[Hs _]].
    + apply (Hocc a2 Ha2 Eid Ho2).
    + apply (assert_app_group_ids c a Happ Ha _ Hg).
    + rewrite Hsrc in Hs. discriminate Hs.
  - rewrite Henv in Hprec. destruct Hprec as [st_a [ch [_ [Hch Hres]]]].
    inversion Hch as [l1 i p dd l2 Hr0 Hx1 Hx2 Hx3|Hno Ech]; subst.
    + rewrite Hifs in Hr0. destruct l1; discriminate Hr0.
    + rewrite Hdef in Hres. exact Hres.
Qed.

Lemma leaves_ids_nodup : NoDup (map f_id (leaves (d_nodes d))).
Proof.
  destruct (assert_app_ids_distinct _ (builtg_app d bin Hv)) as [Hnd _].
  rewrite (builtf_args d bin Hfo), bargs_ids, map_app, map_map in Hnd.
  apply NoDup_app_l in Hnd.
  erewrite map_ext; [exact Hnd|]. intros f. cbv beta. rewrite field_arg_closed. reflexivity.
Qed.
End ParseLine.

Lemma nodup_map_inj {A B} (g : A -> B) (l : list A) x y : NoDup (map g l) -> In x l -> In y l -> g x = g y -> x = y.
Proof.
  induction l as [|a l IH]; intros Hnd Hx Hy E; [destruct Hx|]. cbn [map] in Hnd. inversion Hnd as [|? ? Hni Hnd']; subst.
  destruct Hx as [->|Hx], Hy as [->|Hy].
  - reflexivity.
  - exfalso. apply Hni. rewrite E. apply in_map. exact Hy.
  - exfalso. apply Hni. rewrite <- E. apply in_map. exact Hx.
  - apply IH; assumption.
Qed.

(** ABSENT => NONE, ALL ARGV.  For every struct of argument fields and flattened structs whose command passes clap's
    assertions, every line and every field whose argument has no default (not a [bool] flag / counter / [default_value]):
    if no token of the line names the field's argument, the value the derived parser returns holds the field's absent value. *)
Theorem unoccurring_is_absent d bin toks vs f :
  flat_nodes (d_nodes d) = true -> In f (leaves (d_nodes d)) -> bf_default f = [] ->
  valid (with_bin (derive_cmd d) bin) = true ->
  (forall a, In a (c_args (built d bin)) -> a_id a = f_id f -> ~ occurs (built d bin) toks a) ->
  derived_parse d (bin :: toks) = PValue vs ->
  forall x, field_at (d_nodes d) vs (f_id f) = Some x -> absent_value f = Some x.
Proof.
  intros Hfo Hf Hdef Hv Hocc Hp x Hx.
  apply parse_factor in Hp. destruct Hp as [m [Hp He]].
  destruct (parse_top_flat d (bin :: toks) m Hfo Hv Hp) as [st [Hr ->]]. cbn [hd tl] in Hr.
  destruct (builtg_of d bin Hfo f Hf) as [a [Ha Hof]].
  destruct (of_field_facts f a Hof) as (Fid & _ & _ & _ & _ & Fdef & Fifs & Fenv & _).
  assert (Gf : fm_get (a_id a) (mt_args (mt st)) = None).
  { apply (unoccurring_absent_parse d bin Hfo Hv toks st a Ha Fenv Fifs (eq_trans Fdef Hdef)); [|exact Hr].
    intros a2 Ha2 E2. apply (Hocc a2 Ha2). rewrite E2. exact Fid. }
  rewrite Fid in Gf.
  unfold extract in He. destruct (extract_nodes (d_nodes d) (into_inner (mt st))) as [[vs0 m']| |] eqn:Ex; cbn [xbind] in He; try discriminate He.
  inversion He; subst vs0.
  destruct (proj1 (proj2 extract_absent) _ _ _ _ (f_id f) Ex Gf) as [_ B].
  destruct (B x Hx) as [f' [Hf' [Eid Hav]]].
  rewrite (nodup_map_inj f_id _ f f' (leaves_ids_nodup d bin Hfo Hv) Hf Hf' (eq_sym Eid)). exact Hav.
Qed.

(** the [Option<T>] instance -- for [Option<bool>]: absent is [None], never [Some(false)] *)
Corollary unoccurring_option_is_none d bin toks vs f :
  flat_nodes (d_nodes d) = true -> In f (leaves (d_nodes d)) -> f_ty f = TyOption -> bf_default f = [] ->
  valid (with_bin (derive_cmd d) bin) = true ->
  (forall a, In a (c_args (built d bin)) -> a_id a = f_id f -> ~ occurs (built d bin) toks a) ->
  derived_parse d (bin :: toks) = PValue vs ->
  forall x, field_at (d_nodes d) vs (f_id f) = Some x -> x = DOpt None.
Proof.
  intros Hfo Hf Hty Hdef Hv Hocc Hp x Hx.
  pose proof (unoccurring_is_absent d bin toks vs f Hfo Hf Hdef Hv Hocc Hp x Hx) as H.
  unfold absent_value in H. rewrite Hty in H. inversion H. reflexivity.
Qed.
