(** Property C15, round 5: an OPTIONAL FLATTEN is [None] when the line names none of its members -- ALL argv.
    [gen_constructor] tests [contains_id(group id)]; the struct's group gets an entry only from an EXPLICIT occurrence of one of
    its members ([start_custom_arg]: groups are started for explicit sources only), so: no token names a member => no entry
    for the group (C10 [accepted_faithful] for the command-line phase, C06 [add_defaults_frame]: the defaults phase appends
    entries of ARGUMENTS only) => [Option<Inner>] is [None].  Complements DeriveAbsent.v (leaf fields) and
    DeriveOptFlatten.v (update of a flatten that is [Some]). *)
From ClapModel Require Import Base.Bytes Base.Machine Base.Utf8.
From ClapModel Require Import Parse.Cmd Parse.Build Parse.Valid Parse.Matcher Parse.Errors Parse.Validator Parse.Parser.
From ClapModel Require Import ParseProofs.Totality ParseProofs.TotalityMain ParseProofs.Actions ParseProofs.Sources ParseProofs.Dispatch
                              ParseProofs.KindSound ParseProofs.TypedInv
                              ParseProofs.Unparse ParseProofs.UnparseProofs ParseProofs.UnparseTop
                              ParseProofs.UnparseSub ParseProofs.UnparseTrail ParseProofs.UnparseTree.
From ClapModel Require Import Derive.DeriveModel Derive.DeriveProofs Derive.DeriveCmd Derive.DeriveArgs Derive.DeriveParse
                              Derive.DerivePost Derive.DeriveFlat Derive.DeriveTotal Derive.DeriveAbsent.
From Coq Require Import ZArith List Bool Lia.
From RecordUpdate Require Import RecordSet.
Import RecordSetNotations.
Import ListNotations.
Open Scope N_scope.

(** * 1. lookup of an optional flatten by its group id (through required flattens) *)
Fixpoint flatten_at (ns : nodes) (vs : list dval) (g : id) {struct ns} : option dval :=
  match ns, vs with
  | NCons n t, v :: vt =>
      match flatten_at_node n v g with
      | Some x => Some x
      | None => flatten_at t vt g
      end
  | _, _ => None
  end
with flatten_at_node (n : node) (v : dval) (g : id) {struct n} : option dval :=
  match n, v with
  | NFlatten true gid _, _ => if beq gid g then Some v else None
  | NFlatten false _ body, DStruct fs => flatten_at body fs g
  | _, _ => None
  end.

Lemma extract_absent_group :
  (forall n m v m' g, extract_node n m = XOk (v, m') -> fm_get g (ms_args m) = None ->
     forall x, flatten_at_node n v g = Some x -> x = DOptStruct None)
  /\ (forall ns m vs m' g, extract_nodes ns m = XOk (vs, m') -> fm_get g (ms_args m) = None ->
     forall x, flatten_at ns vs g = Some x -> x = DOptStruct None)
  /\ (forall vs : variants, True).
Proof.
  apply derive_mutind; try (intros; exact I).
  - intros f m v m' g _ _ x Hx. discriminate Hx.
  - intros opt gid body IH m v m' g H G x Hx. cbn [extract_node] in H. destruct opt.
    + cbn [flatten_at_node] in Hx. destruct (beq gid g) eqn:E; [|discriminate Hx]. apply beq_eq in E. subst g.
      inversion Hx; subst x. rewrite m_contains_get, G in H. cbn [is_some] in H. inversion H. reflexivity.
    + xinv H. destruct r as [fs m1]. inversion H; subst. cbn [fst flatten_at_node] in Hx. apply (IH _ _ _ g E G x Hx).
  - intros opt vs _ m v m' g _ _ x Hx. destruct v; discriminate Hx.
  - intros m vs m' g H _ x Hx. cbn in H. inversion H; subst. discriminate Hx.
  - intros n IHn t IHt m vs m' g H G x Hx. cbn [extract_nodes] in H.
    xinv H. destruct r as [v m1]. xinv H. destruct r as [vt m2]. inversion H; subst. cbn [fst snd] in *.
    cbn [flatten_at] in Hx. destruct (flatten_at_node n v g) as [y|] eqn:F.
    + inversion Hx; subst y. apply (IHn _ _ _ g E G x F).
    + destruct (proj1 extract_absent _ _ _ _ g E G) as [A1 _]. apply (IHt _ _ _ g E0 A1 x Hx).
Qed.

(** * 2. a group none of whose members the line names has no entry after an accepted parse *)
Section ParseLine.
Variable d : dinput.
Variable bin : bytes.
Hypothesis Hfo : flat_nodes (d_nodes d) = true.
Hypothesis Hv : valid (with_bin (derive_cmd d) bin) = true.
Local Notation c := (built d bin).

Lemma built_noenv : forall a, In a (c_args c) -> a_env a = None.
Proof.
  intros a Ha. destruct (builtg_cases d bin Hfo a Ha) as [[f [_ Hof]]| ->]; [|reflexivity].
  destruct (of_field_facts f a Hof) as (_ & _ & _ & _ & _ & _ & _ & Fenv & _). exact Fenv.
Qed.

Lemma fm_get_news gid old : forall news, Forall (default_entry c (c_args c) old) news ->
  (forall a, In a (c_args c) -> a_id a <> gid) -> fm_get gid news = None.
Proof.
  induction news as [|[k e] t IH]; intros F Hna; [reflexivity|]. inversion F as [|? ? Hd Ft]; subst.
  cbn [fm_get]. destruct (beq k gid) eqn:E; [|apply IH; assumption].
  exfalso. apply beq_eq in E. destruct Hd as (_ & _ & a & Ha & Hid & _). cbn [fst] in Hid. apply (Hna a Ha). rewrite Hid. exact E.
Qed.

Lemma unoccurring_group_absent toks st gid :
  (forall a, In a (c_args c) -> a_id a <> gid) ->
  (forall a, In a (c_args c) -> In gid (groups_for_arg c (a_id a)) -> ~ occurs c toks a) ->
  get_matches_with (S (S (depth c))) c toks ps_new = ROk st ->
  fm_get gid (mt_args (mt st)) = None.
Proof.
  intros Hna Hocc Hr.
  destruct (phase_order (S (depth c)) c toks ps_new st Hr) as (st_c & st1 & st2 & Ec & E1 & P1 & E2 & P2 & E3 & _).
  rewrite (add_env_noenv c st1 built_noenv) in E2. inversion E2; subst st2.
  destruct (add_defaults_frame c st1 st P1 E3) as (_ & _ & (news & A & F) & Dk & _).
  destruct (fm_get gid (mt_args (mt st1))) as [m1|] eqn:G1.
  - exfalso.
    pose proof (cmdline_phase_all_cl (S (depth c)) c toks ps_new st_c st1 eq_refl Ec E1) as Hcl.
    pose proof (fm_get_forall _ _ _ Hcl G1) as Hsrc.
    pose proof (accepted_faithful (with_bin (derive_cmd d) bin) toks st (parse_plain d bin Hfo) Hv Hr) as Hf.
    rewrite <- built_eq in Hf.
    assert (Hin : In (gid, m1) (explicit_entries (mt st))).
    { unfold explicit_entries. apply filter_In. split; [apply (Relations.fm_get_In _ _ _ (Dk _ _ G1))|].
      cbn [snd]. unfold check_explicit_m. rewrite Hsrc. reflexivity. }
    destruct (Hf _ _ Hin) as [[_ [a2 [[Ha2 Ho2] [Eid|Hg]]]]|[Hs _]].
    + apply (Hna a2 Ha2 Eid).
    + apply (Hocc a2 Ha2 Hg Ho2).
    + rewrite Hsrc in Hs. discriminate Hs.
  - rewrite A, fm_get_app, G1. apply (fm_get_news gid _ news F Hna).
Qed.
End ParseLine.

(** AN OPTIONAL FLATTEN NONE OF WHOSE MEMBERS IS NAMED IS [None], ALL ARGV.  For every struct of argument fields and flattened
    structs whose command passes clap's assertions and every line: if no token names an argument that belongs to the group
    [gid] of an optional flatten (C10's [occurs]), the value the derived parser returns holds [None] for that flatten. *)
Theorem unoccurring_optflatten_is_none d bin toks vs gid :
  flat_nodes (d_nodes d) = true -> valid (with_bin (derive_cmd d) bin) = true ->
  find_group (built d bin) gid <> None ->
  (forall a, In a (c_args (built d bin)) -> In gid (groups_for_arg (built d bin) (a_id a)) -> ~ occurs (built d bin) toks a) ->
  derived_parse d (bin :: toks) = PValue vs ->
  forall x, flatten_at (d_nodes d) vs gid = Some x -> x = DOptStruct None.
Proof.
  intros Hfo Hv Hg Hocc Hp x Hx.
  apply parse_factor in Hp. destruct Hp as [m [Hp He]].
  destruct (parse_top_flat d (bin :: toks) m Hfo Hv Hp) as [st [Hr ->]]. cbn [hd tl] in Hr.
  assert (Hna : forall a, In a (c_args (built d bin)) -> a_id a <> gid).
  { intros a Ha E. destruct (assert_app_ids_distinct _ (builtg_app d bin Hv)) as [_ Hng].
    apply Hg. rewrite <- E. apply (Hng a Ha). }
  pose proof (unoccurring_group_absent d bin Hfo Hv toks st gid Hna Hocc Hr) as Gf.
  unfold extract in He. destruct (extract_nodes (d_nodes d) (into_inner (mt st))) as [[vs0 m']| |] eqn:Ex; cbn [xbind] in He; try discriminate He.
  inversion He; subst vs0.
  apply (proj1 (proj2 extract_absent_group) _ _ _ _ gid Ex Gf x Hx).
Qed.

(** * 3. non-vacuity: [{ t: Option<String>, #[command(flatten)] opt: Option<Inner { e: Option<u8>, g: Option<u8> }> }] on
      [prog --tt x]: neither [e] nor [g] (the arguments of the group "I") is named; [opt] is [None] *)
From ClapModel Require Import Derive.DeriveOptFlatten.
Module OptFlattenNoneEx.
Import OptFlattenEx.
Definition toks2 : list bytes := [[45;45;116;116]; [120]].
Definition gidI : id := [73].
Definition v2 : list dval := [DOpt (Some (SvStr [120])); DOptStruct None].
Local Notation c := (built d b_prog).
Definition a0 : arg := nth 0 (c_args c) help_arg.
Definition a1 : arg := nth 1 (c_args c) help_arg.
Definition a2 : arg := nth 2 (c_args c) help_arg.
Definition a3 : arg := nth 3 (c_args c) help_arg.
Lemma g_args : c_args c = [a0; a1; a2; a3]. Proof. vm_compute. reflexivity. Qed.
Lemma g_group : find_group c gidI <> None. Proof. vm_compute. discriminate. Qed.
Lemma g_not0 : ~ In gidI (groups_for_arg c (a_id a0)). Proof. vm_compute. intuition discriminate. Qed.
Lemma g_not3 : ~ In gidI (groups_for_arg c (a_id a3)). Proof. vm_compute. intuition discriminate. Qed.
Lemma g_long1 : get_long c [116;116] <> Some a1. Proof. vm_compute. discriminate. Qed.
Lemma g_long2 : get_long c [116;116] <> Some a2. Proof. vm_compute. discriminate. Qed.
Lemma g_infer : is_set s_infer_long c = false. Proof. vm_compute. reflexivity. Qed.
Lemma g_index1 : a_index a1 = None. Proof. vm_compute. reflexivity. Qed.
Lemma g_index2 : a_index a2 = None. Proof. vm_compute. reflexivity. Qed.

Lemma not_occurs (a : arg) : get_long c [116;116] <> Some a -> a_index a = None -> ~ occurs c toks2 a.
Proof.
  intros Hlong Hidx [tok [Hin Hn]].
  destruct Hin as [<-|[<-|[]]]; destruct Hn as [[f [ok [v [Hl Hs]]]]|[[r [Hr Hs]]|Hi]];
    try (vm_compute in Hl; discriminate Hl); try (vm_compute in Hr; discriminate Hr); try (apply Hi; exact Hidx).
  vm_compute in Hl. inversion Hl; subst f ok v. destruct Hs as [Hg|[Hinf _]].
  - exact (Hlong Hg).
  - rewrite g_infer in Hinf. discriminate Hinf.
Qed.

Lemma ex_members_unnamed : forall a, In a (c_args c) -> In gidI (groups_for_arg c (a_id a)) -> ~ occurs c toks2 a.
Proof.
  intros a Ha Hg. rewrite g_args in Ha. destruct Ha as [<-|[<-|[<-|[<-|[]]]]].
  - contradiction (g_not0 Hg).
  - apply (not_occurs a1 g_long1 g_index1).
  - apply (not_occurs a2 g_long2 g_index2).
  - contradiction (g_not3 Hg).
Qed.
Lemma ex_facts2 :
  flat_nodes (d_nodes d) = true /\ valid (UnparseTree.with_bin (derive_cmd d) b_prog) = true
  /\ derived_parse d (b_prog :: toks2) = PValue v2
  /\ flatten_at (d_nodes d) v2 gidI = Some (DOptStruct None).
Proof. split; [reflexivity|]. repeat split; vm_compute; reflexivity. Qed.
(** by the theorem *)
Theorem ex_none : forall x, flatten_at (d_nodes d) v2 gidI = Some x -> x = DOptStruct None.
Proof.
  destruct ex_facts2 as (H1 & H2 & H3 & _).
  exact (unoccurring_optflatten_is_none d b_prog toks2 v2 gidI H1 H2 g_group ex_members_unnamed H3).
Qed.
(** the hypothesis matters: naming one member makes the flatten [Some] *)
Lemma ex_named : derived_parse d [b_prog; [45;45;101;101]; [57]] = PValue [DOpt None; DOptStruct (Some [DOpt (Some (SvInt 9%Z)); DOpt None])].
Proof. vm_compute. reflexivity. Qed.
End OptFlattenNoneEx.
