(** Property C15, composition with the parser model (part 3): the canonical printer's line is the
    rendering of an invocation (C02's [render]) that is well formed for the generated command; its
    occurrences; what they denote per field. *)
From ClapModel Require Import Base.Bytes Base.Machine Base.Utf8.
From ClapModel Require Import Parse.Cmd Parse.Build Parse.Valid Parse.Matcher Parse.Errors Parse.Validator Parse.Parser.
From ClapModel Require Import ParseProofs.Totality ParseProofs.Actions ParseProofs.Sources ParseProofs.Dispatch
                              ParseProofs.Unparse ParseProofs.UnparseProofs ParseProofs.UnparseTop
                              ParseProofs.UnparseSub ParseProofs.UnparseTrail ParseProofs.UnparseTree.
From ClapModel Require Import Derive.DeriveModel Derive.DeriveProofs Derive.DeriveCmd Derive.DeriveArgs.
From Coq Require Import ZArith List Bool Lia.
From RecordUpdate Require Import RecordSet.
Import RecordSetNotations.
Import ListNotations.
Open Scope N_scope.

Lemma built_eq d bin : built d bin = build_self (with_bin (derive_cmd d) bin). Proof. reflexivity. Qed.

(** conversion must never unfold the let-chain of [field_arg] (its closed form [field_arg_closed] is
    used by rewriting) *)
Global Opaque bf field_arg built.

(** * 1. the invocation the printer writes *)
Definition takes (f : field) : bool := a_takes_value (bf f).

(** one occurrence of an option field holding [vals] *)
Definition occ_item (f : field) (vals : list bytes) : list item :=
  match f_kind f, vals with
  | KLong l, [] => [if takes f then ItLongSep l [] else ItLong l]
  | KLong l, [v] => [ItLongEq l v]
  | KLong l, _ => [ItLongSep l vals]
  | KShort c, [] => [if takes f then ItCluster [] (TSep c []) else ItCluster [c] TNone]
  | KShort c, [v] => [ItCluster [] (TEq c v)]
  | KShort c, _ => [ItCluster [] (TSep c vals)]
  | KPos, _ => []
  end.
Definition field_items (f : field) (g : option (list (list bytes))) : list item :=
  match g with Some gs => flat_map (occ_item f) gs | None => [] end.
Fixpoint nodes_items (ns : nodes) (vs : list dval) : list item :=
  match ns, vs with
  | NCons (NArg f) t, v :: vt =>
      match field_groups f v with Some g => field_items f g | None => [] end ++ nodes_items t vt
  | _, _ => []
  end.

Lemma render_occ_item f vals : f_is_positional f = false ->
  render (occ_item f vals) = fst (occ_toks (f_kind f) vals) /\ snd (occ_toks (f_kind f) vals) = [].
Proof.
  unfold f_is_positional, occ_item, occ_toks, render. intros Hp.
  destruct (f_kind f) as [l|c|]; [| |discriminate Hp].
  - destruct vals as [|v [|w r]]; [destruct (takes f)| |];
      cbn [flat_map render_item enc_shorts app]; rewrite ?app_nil_r; split; reflexivity.
  - destruct vals as [|v [|w r]]; [destruct (takes f)| |];
      cbn [flat_map render_item enc_shorts app]; rewrite ?app_nil_r; split; reflexivity.
Qed.

Lemma render_app a b : render (a ++ b) = render a ++ render b.
Proof. unfold render. apply flat_map_app. Qed.

Lemma render_field_items f gs : f_is_positional f = false ->
  render (flat_map (occ_item f) gs) = fst (occs_toks (f_kind f) gs) /\ snd (occs_toks (f_kind f) gs) = [].
Proof.
  intros Hp. induction gs as [|g gs [IH1 IH2]]; [split; reflexivity|].
  cbn [flat_map occs_toks fold_right]. fold (occs_toks (f_kind f) gs).
  destruct (render_occ_item f g Hp) as [R1 R2]. unfold cat2. cbn [fst snd].
  rewrite render_app, R1, R2, IH1, IH2. split; reflexivity.
Qed.

(** the printed line of a struct of option fields is the rendering of [nodes_items] *)
Lemma print_nodes_render : forall ns vs p, fields_only ns = true ->
  Forall (fun f => f_is_positional f = false) (fields_of ns) ->
  print_nodes ns vs = Some p ->
  p_opts p = render (nodes_items ns vs) /\ p_pos p = [] /\ p_sub p = [] /\ p_msub p = None.
Proof.
  induction ns as [|n t IH]; intros vs p Hfo Hp H.
  - destruct vs; [|discriminate H]. cbn in H. inversion H; subst. repeat split; reflexivity.
  - destruct n as [f| |]; cbn [fields_only] in Hfo; try discriminate Hfo.
    cbn [fields_of] in Hp. inversion Hp as [|? ? Hpf Hpt]; subst.
    destruct vs as [|v vt]; [discriminate H|]. cbn [print_nodes print_node] in H.
    cbn [nodes_items].
    destruct (field_groups f v) as [g|] eqn:G; [|discriminate H].
    destruct (print_nodes t vt) as [b|] eqn:B; [|discriminate H]. inversion H; subst; clear H.
    destruct (IH vt b Hfo Hpt B) as (I1 & I2 & I3 & I4).
    cbn [printed_cat p_opts p_pos p_sub p_msub fst snd]. rewrite I1, I2, I3, I4, render_app.
    destruct g as [gs|]; cbn [field_items].
    + destruct (render_field_items f gs Hpf) as [R1 R2]. rewrite R1, R2. repeat split; reflexivity.
    + repeat split; reflexivity.
Qed.

(** * 2. occurrences, and the class of the values *)
Definition idn_of (f : field) : ident := match f_kind f with KShort _ => IShort | _ => ILong end.
Definition field_occs (f : field) (gs : list (list bytes)) : list occ :=
  map (fun vals => mkOcc (Some (idn_of f)) SCmdLine (bf f) vals None) gs.
Fixpoint nodes_occs (ns : nodes) (vs : list dval) : list occ :=
  match ns, vs with
  | NCons (NArg f) t, v :: vt =>
      match field_groups f v with Some (Some gs) => field_occs f gs | _ => [] end ++ nodes_occs t vt
  | _, _ => []
  end.

(** an occurrence group the option syntax of the printer can carry: no value, or one attached value of
    an argument that takes values *)
Definition group_fits (f : field) (vals : list bytes) : bool :=
  match vals with [] => true | [_] => takes f | _ => false end.

Lemma nosub_nosubs c tok : c_subs c = [] -> nosub c tok = true.
Proof.
  intros H. unfold nosub, possible_subcommand, find_subcommand. rewrite H.
  destruct (negb (utf8_valid tok)), (is_set s_args_negate_subs c), (is_set s_infer_sub c); reflexivity.
Qed.

Lemma sep_ok_nil f : sep_ok (Some (bf f)) [] = takes f.
Proof.
  unfold sep_ok, count_ok, takes. rewrite bf_num_eq. cbn [length forallb N.of_nat].
  destruct (vmax (bf_num f)); rewrite !andb_true_r; reflexivity.
Qed.
Lemma is_flag_bf f : is_flag (Some (bf f)) = negb (takes f). Proof. reflexivity. Qed.
Lemma is_opt_bf f : is_opt (Some (bf f)) = takes f. Proof. reflexivity. Qed.

Section Items.
Variable d : dinput.
Variable bin : bytes.
Hypothesis Hfo : fields_only (d_nodes d) = true.
Hypothesis Hk : Forall (fun f => kind_ok (f_kind f) = true) (fields_of (d_nodes d)).
Hypothesis Hnd : NoDup (map f_kind (fields_of (d_nodes d))).
Local Notation c := (built d bin).

Lemma wf_occ_item f vals pst pos : In f (fields_of (d_nodes d)) -> group_fits f vals = true ->
  wf_items c pst pos (occ_item f vals) = true
  /\ occs c pos (occ_item f vals) = [mkOcc (Some (idn_of f)) SCmdLine (bf f) vals None]
  /\ items_pos c pos (occ_item f vals) = pos
  /\ Forall (fun it => match it with ItPos _ => False | _ => True end) (occ_item f vals).
Proof.
  intros Hf Hg. pose proof (proj1 (Forall_forall _ _) Hk f Hf) as Hkf. cbn beta in Hkf.
  assert (Hns : forall tok, nosub c tok = true) by (intros tok; apply nosub_nosubs; apply (built_subs d bin Hfo)).
  unfold occ_item, idn_of. destruct (f_kind f) as [l|s|] eqn:Ek; [| |discriminate Hkf].
  - pose proof (lookup_long d bin Hfo Hk Hnd f l Hf Ek) as L.
    cbn [kind_ok] in Hkf. apply andb_prop in Hkf. destruct Hkf as [Hn _].
    destruct vals as [|v [|w r]]; cbn [group_fits] in Hg; [|  |discriminate Hg].
    + destruct (takes f) eqn:T; cbn [wf_items occs items_pos]; unfold wf_item, item_occs, item_pos;
        cbn [render_item firstn forallb]; rewrite Hns, Hn, L, ?sep_ok_nil, ?is_flag_bf, T;
        (split; [reflexivity|split; [reflexivity|split; [reflexivity|repeat constructor]]]).
    + cbn [wf_items occs items_pos]. unfold wf_item, item_occs, item_pos.
      cbn [render_item firstn forallb]. rewrite Hns, Hn, L, is_opt_bf, Hg.
      split; [reflexivity|split; [reflexivity|split; [reflexivity|repeat constructor]]].
  - pose proof (lookup_short d bin Hfo Hk Hnd f s Hf Ek) as L.
    cbn [kind_ok] in Hkf. apply andb_prop in Hkf. destruct Hkf as [Hn _].
    destruct vals as [|v [|w r]]; cbn [group_fits] in Hg; [|  |discriminate Hg].
    + destruct (takes f) eqn:T; cbn [wf_items occs items_pos]; unfold wf_item, wf_tail, item_occs, flags_occs, tail_occs, item_pos;
        cbn [render_item firstn forallb flat_map is_nil]; rewrite ?Hns, ?Hn, ?L, ?sep_ok_nil, ?is_flag_bf, ?T;
        (split; [reflexivity|split; [reflexivity|split; [reflexivity|repeat constructor]]]).
    + cbn [wf_items occs items_pos]. unfold wf_item, wf_tail, item_occs, flags_occs, tail_occs, item_pos.
      cbn [render_item firstn forallb flat_map is_nil]. rewrite Hns, Hn, L, is_opt_bf, Hg.
      split; [reflexivity|split; [reflexivity|split; [reflexivity|repeat constructor]]].
Qed.


(** general facts about item lists *)
Lemma wf_items_app its1 : forall its2 pst pos,
  wf_items c pst pos (its1 ++ its2) =
  wf_items c pst pos its1 && wf_items c (items_pst c pst pos its1) (items_pos c pos its1) its2.
Proof.
  induction its1 as [|it t IH]; intros its2 pst pos; [reflexivity|].
  cbn [app wf_items items_pst items_pos]. rewrite IH, andb_assoc. reflexivity.
Qed.
Lemma occs_app its1 : forall its2 pos,
  occs c pos (its1 ++ its2) = occs c pos its1 ++ occs c (items_pos c pos its1) its2.
Proof.
  induction its1 as [|it t IH]; intros its2 pos; [reflexivity|].
  cbn [app occs items_pos]. rewrite IH, app_assoc. reflexivity.
Qed.
Lemma items_pos_app its1 : forall its2 pos,
  items_pos c pos (its1 ++ its2) = items_pos c (items_pos c pos its1) its2.
Proof. induction its1 as [|it t IH]; intros its2 pos; [reflexivity|]. cbn [app items_pos]. apply IH. Qed.

Lemma wf_field_items f gs : In f (fields_of (d_nodes d)) -> forallb (group_fits f) gs = true ->
  forall pst pos, wf_items c pst pos (flat_map (occ_item f) gs) = true
    /\ occs c pos (flat_map (occ_item f) gs) = field_occs f gs
    /\ items_pos c pos (flat_map (occ_item f) gs) = pos.
Proof.
  intros Hf. induction gs as [|g gs IH]; intros Hg pst pos; [repeat split; reflexivity|].
  cbn [forallb] in Hg. apply andb_prop in Hg. destruct Hg as [Hg Hgs].
  cbn [flat_map field_occs map]. rewrite wf_items_app, occs_app, items_pos_app.
  destruct (wf_occ_item f g pst pos Hf Hg) as (W & O & P & _). rewrite W, O, P. cbn [andb].
  destruct (IH Hgs (items_pst c pst pos (occ_item f g)) pos) as (W2 & O2 & P2). rewrite W2, O2, P2.
  repeat split; reflexivity.
Qed.

(** every occurrence group of the value fits the option syntax *)
Fixpoint fits_nodes (ns : nodes) (vs : list dval) : Prop :=
  match ns, vs with
  | NCons (NArg f) t, v :: vt =>
      match field_groups f v with Some (Some gs) => forallb (group_fits f) gs = true | _ => True end
      /\ fits_nodes t vt
  | _, _ => True
  end.

Lemma wf_nodes_items : forall ns vs, fields_only ns = true -> incl (fields_of ns) (fields_of (d_nodes d)) ->
  fits_nodes ns vs ->
  forall pst pos, wf_items c pst pos (nodes_items ns vs) = true
    /\ occs c pos (nodes_items ns vs) = nodes_occs ns vs
    /\ items_pos c pos (nodes_items ns vs) = pos.
Proof.
  induction ns as [|n t IH]; intros vs Hfo' Hin Hfit pst pos; [repeat split; reflexivity|].
  destruct n as [f| |]; cbn [fields_only] in Hfo'; try discriminate Hfo'.
  destruct vs as [|v vt]; [repeat split; reflexivity|].
  cbn [nodes_items nodes_occs fits_nodes fields_of] in *. destruct Hfit as [Hf1 Hf2].
  assert (Hf : In f (fields_of (d_nodes d))) by (apply Hin; left; reflexivity).
  assert (Hin' : incl (fields_of t) (fields_of (d_nodes d))) by (intros x Hx; apply Hin; right; exact Hx).
  rewrite wf_items_app, occs_app, items_pos_app.
  destruct (field_groups f v) as [[gs|]|].
  - cbn [field_items]. destruct (wf_field_items f gs Hf Hf1 pst pos) as (W & O & P). rewrite W, O, P. cbn [andb].
    destruct (IH vt Hfo' Hin' Hf2 (items_pst c pst pos (flat_map (occ_item f) gs)) pos) as (W2 & O2 & P2).
    rewrite W2, O2, P2. repeat split; reflexivity.
  - cbn [field_items wf_items occs items_pos items_pst app andb]. apply (IH vt Hfo' Hin' Hf2).
  - cbn [wf_items occs items_pos items_pst app andb]. apply (IH vt Hfo' Hin' Hf2).
Qed.

End Items.

(** * 3. what the printed occurrences denote, per field *)
(** the raw groups the matches hold for a mentioned field *)
Definition raw_of (f : field) (gs : list (list bytes)) : list (list bytes) :=
  match field_action f with
  | ASetTrue => [[s_true]]
  | ACount => count_raw (length gs)
  | _ => gs
  end.
(** the form of the occurrence groups the printer produces, by action *)
Definition field_form (f : field) (gs : list (list bytes)) : Prop :=
  match field_action f with
  | ASet => exists g, gs = [g]
  | AAppend => gs <> []
  | ASetTrue => gs = [[]]
  | ACount => exists n, gs = repeat [] n /\ (0 < n <= 255)%nat
  | _ => False
  end.

Lemma fold_field_cons {A} (F : A -> occ -> A) f g gs a :
  fold_left F (field_occs f (g :: gs)) a =
  fold_left F (field_occs f gs) (F a (mkOcc (Some (idn_of f)) SCmdLine (bf f) g None)).
Proof. reflexivity. Qed.
Lemma fold_field_nil {A} (F : A -> occ -> A) f a : fold_left F (field_occs f []) a = a.
Proof. reflexivity. Qed.

Section Denote.
Variable d : dinput.
Variable bin : bytes.
Hypothesis Hfo : fields_only (d_nodes d) = true.
Hypothesis Hk : Forall (fun f => kind_ok (f_kind f) = true) (fields_of (d_nodes d)).
Hypothesis Hnd : NoDup (map f_kind (fields_of (d_nodes d))).
Local Notation c := (built d bin).

Lemma overridden_none a j : In a (c_args c) -> overridden c a j = false.
Proof. apply no_overrides_spec. apply (built_no_overrides d bin Hfo Hk). Qed.

Lemma bf_id f : a_id (bf f) = f_id f. Proof. apply (bf_frame f). Qed.

Lemma o_vals_field f idn vals : f_delim f = None ->
  o_vals c (mkOcc idn SCmdLine (bf f) vals None) = match vals with [] => bf_dmissing f | _ => vals end.
Proof.
  intros Hd. unfold o_vals, occ_values. cbn [o_arg o_raw o_ti]. rewrite bf_dmissing_eq.
  assert (D : forall raw ti, delimit c (bf f) raw ti = Some raw).
  { intros raw ti. unfold delimit. destruct (bf_frame f) as (_ & _ & _ & _ & _ & _ & H & _). rewrite H, Hd. reflexivity. }
  destruct vals as [|v r]; [destruct (bf_dmissing f)|]; cbn [is_nil negb]; rewrite D; reflexivity.
Qed.

Lemma step_own f idn vals prev : f_delim f = None ->
  step_abs c (f_id f) prev (mkOcc idn SCmdLine (bf f) vals None) =
  Some (step_self c SCmdLine (bf f) (match vals with [] => bf_dmissing f | _ => vals end) prev).
Proof.
  intros Hd. unfold step_abs. cbn [o_arg o_src]. rewrite bf_id, beq_refl, (o_vals_field f idn vals Hd). reflexivity.
Qed.

Lemma dmissing_of f : bf_dmissing f = match field_action f with ASetTrue => [s_true] | ASetFalse => [s_false] | _ => [] end.
Proof. unfold bf_dmissing. destruct (field_action f); reflexivity. Qed.

Lemma step_append f idn g acc (Hf : In f (fields_of (d_nodes d))) : f_delim f = None -> field_action f = AAppend ->
  step_abs c (f_id f) (Some acc) (mkOcc idn SCmdLine (bf f) g None) = Some (acc ++ [g]).
Proof.
  intros Hd Ha. rewrite (step_own f idn g (Some acc) Hd). unfold step_self. rewrite bf_action, Ha.
  unfold own_prev. rewrite (overridden_none (bf f) (a_id (bf f)) (bf_in d bin Hfo Hk f Hf)).
  rewrite dmissing_of, Ha. destruct g; reflexivity.
Qed.
Lemma step_append_none f idn g (Hf : In f (fields_of (d_nodes d))) : f_delim f = None -> field_action f = AAppend ->
  step_abs c (f_id f) None (mkOcc idn SCmdLine (bf f) g None) = Some [g].
Proof.
  intros Hd Ha. rewrite (step_own f idn g None Hd). unfold step_self. rewrite bf_action, Ha.
  unfold own_prev. rewrite (overridden_none (bf f) (a_id (bf f)) (bf_in d bin Hfo Hk f Hf)).
  rewrite dmissing_of, Ha. destruct g; reflexivity.
Qed.

Lemma fold_append f (Hf : In f (fields_of (d_nodes d))) : f_delim f = None -> field_action f = AAppend ->
  forall gs acc, fold_left (step_abs c (f_id f)) (field_occs f gs) (Some acc) = Some (acc ++ gs).
Proof.
  intros Hd Ha. induction gs as [|g gs IH]; intros acc.
  - rewrite fold_field_nil, app_nil_r. reflexivity.
  - rewrite fold_field_cons, (step_append f _ g acc Hf Hd Ha), IH, <- app_assoc. reflexivity.
Qed.

Lemma count_occ_field f gs : Actions.count_occ (f_id f) (field_occs f gs) = length gs.
Proof.
  induction gs as [|g gs IH]; [reflexivity|]. cbn [field_occs map Actions.count_occ o_arg length].
  rewrite bf_id, beq_refl. fold (field_occs f gs). rewrite IH. reflexivity.
Qed.

Theorem denote_field f gs : In f (fields_of (d_nodes d)) -> f_delim f = None -> field_form f gs ->
  fold_left (step_abs c (f_id f)) (field_occs f gs) None = Some (raw_of f gs).
Proof.
  intros Hf Hd Hform. unfold field_form, raw_of in *. destruct (field_action f) eqn:Ha; try contradiction.
  - (* Set *) destruct Hform as [g ->]. rewrite fold_field_cons, fold_field_nil, (step_own f _ g _ Hd).
    unfold step_self. rewrite bf_action, Ha, dmissing_of, Ha. destruct g; reflexivity.
  - (* Append *) destruct gs as [|g gs]; [contradiction Hform; reflexivity|].
    rewrite fold_field_cons, (step_append_none f _ g Hf Hd Ha), (fold_append f Hf Hd Ha). reflexivity.
  - (* SetTrue *) subst gs. rewrite fold_field_cons, fold_field_nil, (step_own f _ [] _ Hd).
    unfold step_self. rewrite bf_action, Ha, dmissing_of, Ha. reflexivity.
  - (* Count *) destruct Hform as [n [-> Hn]].
    assert (Hdm : a_default_missing (bf f) = []) by (rewrite bf_dmissing_eq, dmissing_of, Ha; reflexivity).
    pose proof (abs_count c (bf f) (eq_trans (bf_action f) Ha) Hdm (field_occs f (repeat [] n)) 0) as A.
    rewrite bf_id in A. change (enc 0) with (@None groups) in A. rewrite A.
    + rewrite count_occ_field, repeat_length. unfold enc, count_raw.
      replace (0 + N.of_nat n) with (N.of_nat n) by lia.
      destruct (N.of_nat n =? 0) eqn:E0; [apply N.eqb_eq in E0; lia|].
      rewrite N.min_l by lia. reflexivity.
    + apply Forall_forall. intros o Ho. unfold field_occs in Ho. apply in_map_iff in Ho. destruct Ho as [g [<- Hg]].
      apply repeat_spec in Hg. subst g. left. split; reflexivity.
Qed.

(** occurrences of other fields do not touch a field *)
Lemma fold_other : forall ns vs i prev, fields_only ns = true -> incl (fields_of ns) (fields_of (d_nodes d)) ->
  ~ In i (map f_id (fields_of ns)) ->
  fold_left (step_abs c i) (nodes_occs ns vs) prev = prev.
Proof.
  intros ns vs i prev Hfo' Hin Hni. apply fold_unrelated. revert vs Hfo' Hin Hni.
  induction ns as [|n t IH]; intros vs Hfo' Hin Hni; [constructor|].
  destruct n as [f| |]; cbn [fields_only] in Hfo'; try discriminate Hfo'.
  destruct vs as [|v vt]; [constructor|]. cbn [nodes_occs fields_of map] in *.
  apply Forall_app. split.
  - destruct (field_groups f v) as [[gs|]|]; try constructor.
    apply Forall_forall. intros o Ho. unfold field_occs in Ho. apply in_map_iff in Ho. destruct Ho as [g [<- _]].
    split; cbn [o_arg o_src].
    + rewrite bf_id. apply beq_neq. intros E. apply Hni. left. exact E.
    + rewrite (overridden_none (bf f) i (bf_in d bin Hfo Hk f (Hin f (or_introl eq_refl)))). reflexivity.
  - apply IH; [exact Hfo'| |].
    + intros x Hx. apply Hin. right. exact Hx.
    + intros H. apply Hni. right. exact H.
Qed.

(** the field [f] holds the value [v] in ([ns], [vs]) *)
Fixpoint at_node (ns : nodes) (vs : list dval) (f : field) (v : dval) : Prop :=
  match ns, vs with
  | NCons (NArg f') t, v' :: vt => (f' = f /\ v' = v) \/ at_node t vt f v
  | _, _ => False
  end.

Theorem denote_nodes : forall ns vs f v g, fields_only ns = true -> incl (fields_of ns) (fields_of (d_nodes d)) ->
  NoDup (map f_id (fields_of ns)) -> at_node ns vs f v -> field_groups f v = Some g -> f_delim f = None ->
  (forall gs, g = Some gs -> field_form f gs) ->
  fold_left (step_abs c (f_id f)) (nodes_occs ns vs) None = opt_map (raw_of f) g.
Proof.
  induction ns as [|n t IH]; intros vs f v g Hfo' Hin Hnd' Hat Hg Hd Hform; [destruct Hat|].
  destruct n as [f'| |]; cbn [fields_only] in Hfo'; try discriminate Hfo'.
  destruct vs as [|v' vt]; [destruct Hat|]. cbn [at_node nodes_occs fields_of map] in *.
  inversion Hnd' as [|? ? Hni Hnd'']; subst.
  assert (Hin' : incl (fields_of t) (fields_of (d_nodes d))) by (intros x Hx; apply Hin; right; exact Hx).
  rewrite fold_left_app. destruct Hat as [[-> ->]|Hat].
  - rewrite Hg. destruct g as [gs|]; cbn [opt_map].
    + rewrite (denote_field f gs (Hin f (or_introl eq_refl)) Hd (Hform gs eq_refl)).
      apply (fold_other t vt (f_id f) _ Hfo' Hin' Hni).
    + cbn [fold_left]. apply (fold_other t vt (f_id f) _ Hfo' Hin' Hni).
  - assert (Hne : f_id f' <> f_id f).
    { intros E. apply Hni. rewrite E. clear - Hat Hfo'. revert vt Hat. induction t as [|n t IH]; intros vt Hat; [destruct Hat|].
      destruct n as [f2| |]; cbn [fields_only] in Hfo'; try discriminate Hfo'. destruct vt as [|v2 vt]; [destruct Hat|].
      cbn [at_node fields_of map] in *. destruct Hat as [[-> _]|Hat]; [left; reflexivity|right; apply (IH Hfo' vt Hat)]. }
    assert (E1 : fold_left (step_abs c (f_id f))
                   (match field_groups f' v' with Some (Some gs) => field_occs f' gs | _ => [] end) None = None).
    { apply fold_unrelated. destruct (field_groups f' v') as [[gs|]|]; try constructor.
      apply Forall_forall. intros o Ho. unfold field_occs in Ho. apply in_map_iff in Ho. destruct Ho as [g0 [<- _]].
      split; cbn [o_arg o_src].
      - rewrite bf_id. apply beq_neq. exact Hne.
      - rewrite (overridden_none (bf f') (f_id f) (bf_in d bin Hfo Hk f' (Hin f' (or_introl eq_refl)))). reflexivity. }
    rewrite E1. apply (IH vt f v g Hfo' Hin' Hnd'' Hat Hg Hd Hform).
Qed.

End Denote.

(** * 4. unmentioned arguments: absent, or their default *)
Lemma post_loop_absent c st1 st a : ids_distinct c -> mt_pending (mt st1) = None -> post_loop c st1 = ROk st ->
  In a (c_args c) -> a_env a = None -> a_default_ifs a = [] -> a_delim a = None ->
  fm_get (a_id a) (mt_args (mt st1)) = None ->
  opt_map m_raw (fm_get (a_id a) (mt_args (mt st))) = match a_default a with [] => None | l => Some [l] end.
Proof.
  intros [Hnd Hng] P1 H Ha He Hi Hd G1. destruct (post_loop_ok c st1 st H) as [st2 [E2 E3]].
  destruct (in_split _ _ Ha) as [pre [post Hsplit]].
  destruct (add_env_frame c st1 st2 P1 E2) as [P2 [_ [_ [_ [_ Ea]]]]].
  assert (G2 : fm_get (a_id a) (mt_args (mt st2)) = None).
  { apply Ea; [apply Hng; exact Ha|exact G1|]. intros a' Hin' Hid.
    assert (a' = a) by (eapply nodup_map_inj; eassumption). subst a'. exact He. }
  destruct (add_defaults_decides c st2 st pre a post Hnd Hsplit P2 E3) as [st_a [_ [_ Hdec]]].
  destruct (Hdec G2) as [ch [Hch Hres]]. inversion Hch as [l1 i p dd l2 Hr Hx1 Hx2 Hx3|Hno Ech]; subst.
  - rewrite Hi in Hr. destruct l1; discriminate Hr.
  - destruct (a_default a) as [|x r]; cbn [is_nil] in Hres.
    + rewrite Hres. reflexivity.
    + destruct Hres as [vs [e [Hdl [_ [Ge [_ Re]]]]]]. unfold delimit in Hdl. rewrite Hd in Hdl. inversion Hdl; subst.
      rewrite Ge. cbn [opt_map]. rewrite Re. reflexivity.
Qed.

(** * 5. extraction reads only the raw groups *)
Definition raw_at (i : id) (l : list (id * marg)) : option (list (list bytes)) := opt_map m_raw (fm_get i l).

Lemma field_value_raw f m m2 v m' : raw_at (f_id f) (ms_args m) = raw_at (f_id f) (ms_args m2) ->
  field_value f m2 = XOk (v, m') -> exists m'', field_value f m = XOk (v, m'').
Proof.
  unfold raw_at, field_value, remove_one, remove_many, remove_occurrences, remove_typed, typed_groups. rewrite !m_contains_get.
  destruct (fm_get (f_id f) (ms_args m)) as [a|], (fm_get (f_id f) (ms_args m2)) as [b|]; cbn [opt_map]; intros H; try discriminate H.
  - injection H as H. rewrite H.
    destruct (f_ty f); cbn [is_some]; try (intros E; inversion E; subst; eexists; reflexivity);
      destruct (map_opt (map_opt (parse_scalar (f_t f) (f_icase f))) (m_raw b)) as [gs|]; cbn [xbind fst snd opt_map opt_default];
      try (intros E; discriminate E); try (intros E; inversion E; subst; eexists; reflexivity).
    destruct (hd_error (concat gs)); intros E; [inversion E; subst; eexists; reflexivity|discriminate E].
  - destruct (f_ty f); cbn [is_some xbind fst snd opt_map opt_default]; intros E; try discriminate E; inversion E; subst; eexists; reflexivity.
Qed.

(** * 6. the round trip through the parser model (soundness) *)
(** the class: a struct of option fields ([--long] / [-s]), names typable and distinct, no value
    delimiter, explicit [num_args] consistent with the action, no nested-vector shapes *)
Definition ty_ok (f : field) : bool := match f_ty f with TyVecVec | TyOptionVecVec => false | _ => true end.
Definition opt_field (f : field) : Prop :=
  kind_ok (f_kind f) = true /\ ty_ok f = true /\ f_delim f = None.
Definition opt_struct (d : dinput) : Prop :=
  fields_only (d_nodes d) = true /\ Forall opt_field (fields_of (d_nodes d))
  /\ NoDup (map f_kind (fields_of (d_nodes d))) /\ NoDup (map f_id (fields_of (d_nodes d))).
(** the values: every occurrence group the printer writes for a field has the form of the field's action and
    fits the option syntax (no value, or one attached value of an argument that takes values) *)
Definition printable (ns : nodes) (vs : list dval) : Prop :=
  forall f v gs, at_node ns vs f v -> field_groups f v = Some (Some gs) ->
    field_form f gs /\ forallb (group_fits f) gs = true.

Lemma printable_fits : forall ns vs, fields_only ns = true -> printable ns vs -> fits_nodes ns vs.
Proof.
  induction ns as [|n t IH]; intros vs Hfo Hp; [exact I|].
  destruct n as [f| |]; cbn [fields_only] in Hfo; try discriminate Hfo.
  destruct vs as [|v vt]; [exact I|]. cbn [fits_nodes]. split.
  - destruct (field_groups f v) as [[gs|]|] eqn:G; try exact I.
    apply (Hp f v gs); [left; split; reflexivity|exact G].
  - apply (IH vt Hfo). intros f' v' gs Hat Hg. apply (Hp f' v' gs); [right; exact Hat|exact Hg].
Qed.

Lemma field_entry_raw f g : raw_at (f_id f) (field_entry f g) =
  match g with Some gs => Some (raw_of f gs) | None => match bf_default f with [] => None | l => Some [l] end end.
Proof.
  unfold raw_at, field_entry, raw_of, bf_default. destruct g as [gs|].
  - rewrite fm_get_single. reflexivity.
  - destruct (f_default f) as [dd|]; [rewrite fm_get_single; reflexivity|].
    destruct (action_default_value (field_action f)); [rewrite fm_get_single; reflexivity|reflexivity].
Qed.

Lemma no_globals_intro x : c_subs x = [] -> forallb (fun a => negb (a_global a)) (c_args x) = true -> no_globals x = true.
Proof.
  destruct x as [n al sf lf sfa lfa args groups subs cs gs v lv ev bn dn ab lab]. cbn [c_subs c_args no_globals].
  intros -> ->. reflexivity.
Qed.

Lemma set_subs_args (x : cmd) l : c_args (x <| c_subs := l |>) = c_args x /\ c_subs (x <| c_subs := l |>) = l.
Proof. destruct x. split; reflexivity. Qed.

Lemma bf_global f : a_global (bf f) = false.
Proof.
  Transparent bf. unfold bf. Opaque bf. destruct (arg_build_id (field_arg false f)) as [_ H]. rewrite H, field_arg_closed. reflexivity.
Qed.

(** extraction of a struct of fields from any matches that agree with the printed entries on the raw groups *)
Lemma extract_fields : forall ns vs p m, fields_only ns = true -> NoDup (map f_id (fields_of ns)) ->
  ok_nodes ns vs -> print_nodes ns vs = Some p ->
  (forall f v g, at_node ns vs f v -> field_groups f v = Some g ->
     raw_at (f_id f) (ms_args m) = raw_at (f_id f) (field_entry f g)) ->
  exists m', extract_nodes ns m = XOk (vs, m').
Proof.
  induction ns as [|n t IH]; intros vs p m Hfo Hnd Hok Hp Hag.
  - destruct vs; [|discriminate Hp]. cbn. eauto.
  - destruct n as [f| |]; cbn [fields_only] in Hfo; try discriminate Hfo.
    destruct vs as [|v vt]; [discriminate Hp|]. cbn [print_nodes print_node] in Hp.
    destruct (field_groups f v) as [g|] eqn:G; [|discriminate Hp].
    destruct (print_nodes t vt) as [b|] eqn:B; [|discriminate Hp].
    cbn [ok_nodes ok_node] in Hok. destruct Hok as [[Hfok Hs] Hokt].
    cbn [fields_of map] in Hnd. inversion Hnd as [|? ? Hni Hnd']; subst.
    cbn [extract_nodes extract_node].
    assert (A : raw_at (f_id f) (ms_args m) = raw_at (f_id f) (ms_args (Matches (field_entry f g) None))).
    { apply (Hag f v g); [left; split; reflexivity|exact G]. }
    destruct (field_roundtrip f v g (Matches (field_entry f g) None) Hfok Hs G eq_refl) as [m0 E0].
    destruct (field_value_raw f m _ v m0 A E0) as [m1 E1]. rewrite E1. cbn [xbind fst snd].
    destruct (field_value_shapes f m v m1 E1) as [_ Hm1].
    destruct (IH vt b m1 Hfo Hnd' Hokt B) as [m2 E2].
    + intros f' v' g' Hat Hg'. rewrite <- (Hag f' v' g' (or_intror Hat) Hg'). unfold raw_at. f_equal.
      destruct Hm1 as [->| ->]; [reflexivity|]. cbn [m_remove ms_args]. apply fm_get_remove_other.
      intros E. apply Hni. rewrite <- E. clear - Hat Hfo. revert vt Hat. induction t as [|n t IHt]; intros vt Hat; [destruct Hat|].
      destruct n as [f2| |]; cbn [fields_only] in Hfo; try discriminate Hfo. destruct vt as [|v2 vt]; [destruct Hat|].
      cbn [at_node fields_of map] in *. destruct Hat as [[-> _]|Hat]; [left; reflexivity|right; apply (IHt Hfo vt Hat)].
    + rewrite E2. cbn [xbind fst snd]. eauto.
Qed.

(** the matches of the REAL parse of the printed line agree with the printed entries on the raw groups of every field *)
Theorem roundtrip_parse_agrees d bin vs argv m :
  opt_struct d -> printable (d_nodes d) vs ->
  valid (with_bin (derive_cmd d) bin) = true ->
  print d vs = Some argv ->
  parse_top (derive_cmd d) (bin :: argv) = OOk m ->
  forall f v g, at_node (d_nodes d) vs f v -> field_groups f v = Some g ->
    raw_at (f_id f) (ms_args m) = raw_at (f_id f) (field_entry f g).
Proof.
  intros (Hfo & Hof & Hndk & Hndi) Hpr Hv Hprint Hparse.
  assert (Hk : Forall (fun f => kind_ok (f_kind f) = true) (fields_of (d_nodes d))).
  { eapply Forall_impl; [|exact Hof]. intros f Hf. apply Hf. }
  (* the printed line *)
  unfold print, print_top in Hprint. destruct (print_nodes (d_nodes d) vs) as [p|] eqn:P; [|discriminate Hprint].
  cbn [opt_map] in Hprint. inversion Hprint as [Ea]; clear Hprint.
  destruct (print_nodes_render (d_nodes d) vs p Hfo (kinds_not_positional d Hk) P) as (R1 & R2 & R3 & _).
  set (its := nodes_items (d_nodes d) vs) in *.
  assert (Eargv : argv = render_inv (ILeaf its)).
  { rewrite <- Ea. unfold printed_argv. destruct p as [po pp psb pe pm]. cbn [p_opts p_pos p_sub] in *.
    subst pp psb. rewrite !app_nil_r. exact R1. }
  (* the invocation is well formed for the built command *)
  pose proof (built_conv d bin Hfo Hk Hv) as Hconv.
  pose proof (built_no_ignore_errors d bin Hfo) as Hie.
  destruct (wf_nodes_items d bin Hfo Hk Hndk (d_nodes d) vs Hfo (incl_refl _) (printable_fits _ _ Hfo Hpr) PSValuesDone 1)
    as (W & O & _). fold its in W, O.
  assert (Hwf : wf_inv (built d bin) (ILeaf its) = true) by (cbn [wf_inv]; rewrite Hconv, Hie, W; reflexivity).
  (* C02: the parse is the meaning of the invocation *)
  assert (Hnb : is_set s_no_binary_name (derive_cmd d) = false).
  { unfold derive_cmd. rewrite (derive_cmd_fields false d Hfo). reflexivity. }
  rewrite Eargv in Hparse. rewrite built_eq in Hwf, Hconv, Hie.
  rewrite (parse_top_inv (derive_cmd d) bin (ILeaf its) Hnb Hv Hwf) in Hparse. rewrite <- built_eq in Hparse, Hconv, Hie.
  cbn [run_inv] in Hparse.
  destruct (react_all (built d bin) (occs (built d bin) 1 its) ps_new) as [st1|e s|n] eqn:E1; cbn [rbind] in Hparse.
  2: { unfold finish_outcome in Hparse. rewrite <- built_eq, Hie in Hparse. discriminate Hparse. }
  2: { unfold finish_outcome in Hparse. destruct n; discriminate Hparse. }
  destruct (post_loop (built d bin) st1) as [st|e s|n] eqn:E2.
  2: { unfold finish_outcome in Hparse. rewrite <- built_eq, Hie in Hparse. discriminate Hparse. }
  2: { unfold finish_outcome in Hparse. destruct n; discriminate Hparse. }
  rewrite finish_no_globals in Hparse.
  2: { rewrite <- built_eq. cbn [build_recursive]. rewrite <- built_eq. apply no_globals_intro.
       - rewrite (proj2 (set_subs_args _ _)), (built_subs d bin Hfo). reflexivity.
       - rewrite (proj1 (set_subs_args _ _)). apply forallb_forall. intros a Hin. destruct (built_arg_cases d bin Hfo Hk a Hin) as [[f [_ ->]]| ->].
         + rewrite bf_global. reflexivity.
         + reflexivity. }
  inversion Hparse as [Em]; clear Hparse.
  (* per field: the matches hold what the printed entries hold *)
  pose proof (assert_app_ids_distinct _ (conv_app _ Hconv)) as Hids.
  pose proof (react_all_pending_keep _ _ _ _ E1 eq_refl) as P1.
  intros f v g Hat Hg. try rewrite <- Em. cbn [into_inner ms_args]. rewrite field_entry_raw.
    assert (Hf : In f (fields_of (d_nodes d))).
    { clear - Hat Hfo. revert vs Hat. induction (d_nodes d) as [|n t IHt]; intros vs Hat; [destruct Hat|].
      destruct n as [f2| |]; cbn [fields_only] in Hfo; try discriminate Hfo. destruct vs as [|v2 vt]; [destruct Hat|].
      cbn [at_node fields_of] in *. destruct Hat as [[-> _]|Hat]; [left; reflexivity|right; apply (IHt Hfo vt Hat)]. }
    pose proof (proj1 (Forall_forall _ _) Hof f Hf) as (_ & _ & Hd).
    pose proof (bf_in d bin Hfo Hk f Hf) as Hin.
    assert (Hden : denote_arg (built d bin) (f_id f) its = opt_map (raw_of f) g).
    { unfold denote_arg, denote_os. rewrite O.
      apply (denote_nodes d bin Hfo Hk (d_nodes d) vs f v g Hfo (incl_refl _) Hndi Hat Hg Hd).
      intros gs ->. apply (Hpr f v gs Hat Hg). }
    rewrite <- (bf_id f) in Hden |- *.
    destruct g as [gs|]; cbn [opt_map] in Hden.
    + destruct (conservation_core (built d bin) Hconv its st1 st1 st E1 eq_refl P1 E2 (bf f) Hin) as [C1 _].
      pose proof (C1 _ Hden) as G. unfold groups_of, get in G. exact G.
    + destruct (react_all_occs_denote (built d bin) Hconv its st1 (bf f) Hin E1) as [G _]. rewrite Hden in G.
      unfold groups_of, get in G. destruct (fm_get (a_id (bf f)) (mt_args (mt st1))) as [x|] eqn:G1; [discriminate G|].
      unfold raw_at. destruct (bf_frame f) as (_ & _ & _ & _ & _ & _ & Hdl & _ & Henv & Hifs & _).
      rewrite (post_loop_absent (built d bin) st1 st (bf f) Hids P1 E2 Hin Henv Hifs (eq_trans Hdl Hd) G1).
      rewrite bf_default_eq. reflexivity.
Qed.

Theorem roundtrip_parse_sound d bin vs argv m :
  opt_struct d -> printable (d_nodes d) vs -> ok_nodes (d_nodes d) vs ->
  valid (with_bin (derive_cmd d) bin) = true ->
  print d vs = Some argv ->
  parse_top (derive_cmd d) (bin :: argv) = OOk m ->
  extract d m = XOk vs.
Proof.
  intros Hs Hpr Hok Hv Hprint Hparse.
  pose proof (roundtrip_parse_agrees d bin vs argv m Hs Hpr Hv Hprint Hparse) as Hag.
  destruct Hs as (Hfo & Hof & Hndk & Hndi).
  unfold print, print_top in Hprint. destruct (print_nodes (d_nodes d) vs) as [p|] eqn:P; [|discriminate Hprint].
  unfold extract. destruct (extract_fields (d_nodes d) vs p m Hfo Hndi Hok P Hag) as [m' Ex].
  rewrite Ex. reflexivity.
Qed.

(** the printed line is the rendering of a well-formed invocation of the built command whose occurrences are
    [nodes_occs] (one per printed group, carrying that group's values) *)
Theorem print_is_render d bin vs argv : opt_struct d -> printable (d_nodes d) vs -> print d vs = Some argv ->
  argv = render_inv (ILeaf (nodes_items (d_nodes d) vs))
  /\ wf_items (built d bin) PSValuesDone 1 (nodes_items (d_nodes d) vs) = true
  /\ occs (built d bin) 1 (nodes_items (d_nodes d) vs) = nodes_occs (d_nodes d) vs.
Proof.
  intros (Hfo & Hof & Hndk & Hndi) Hpr Hprint.
  assert (Hk : Forall (fun f => kind_ok (f_kind f) = true) (fields_of (d_nodes d))).
  { eapply Forall_impl; [|exact Hof]. intros f Hf. apply Hf. }
  unfold print, print_top in Hprint. destruct (print_nodes (d_nodes d) vs) as [p|] eqn:P; [|discriminate Hprint].
  cbn [opt_map] in Hprint. inversion Hprint as [Ea]; clear Hprint.
  destruct (print_nodes_render (d_nodes d) vs p Hfo (kinds_not_positional d Hk) P) as (R1 & R2 & R3 & _).
  destruct (wf_nodes_items d bin Hfo Hk Hndk (d_nodes d) vs Hfo (incl_refl _) (printable_fits _ _ Hfo Hpr) PSValuesDone 1)
    as (W & O & _).
  split; [|split; [exact W|exact O]].
  try rewrite <- Ea. unfold printed_argv. destruct p as [po pp psb pe pm]. cbn [p_opts p_pos p_sub] in *.
  subst pp psb. rewrite !app_nil_r. exact R1.
Qed.

(** * 7. [printable] follows from [field_ok] (the attribute combinations of the matches-level round trip) *)
Lemma forallb_repeat_nil f n : forallb (group_fits f) (repeat [] n) = true.
Proof. induction n; [reflexivity|]. cbn [repeat forallb group_fits]. exact IHn. Qed.
Lemma forallb_singletons f (ss : list bytes) : takes f = true -> forallb (group_fits f) (map (fun s => [s]) ss) = true.
Proof. intros H. induction ss; [reflexivity|]. cbn [map forallb group_fits]. rewrite H, IHss. reflexivity. Qed.
Lemma map_opt_cons_nonnil {A B} (g : A -> option B) x l ss : map_opt g (x :: l) = Some ss -> ss <> [].
Proof. cbn. destruct (g x); [|discriminate]. destruct (map_opt g l); [|discriminate]. intros H; inversion H; discriminate. Qed.

Lemma printable_of_ok f v gs : field_ok f -> ty_ok f = true -> f_is_positional f = false ->
  takes f = action_takes_values (field_action f) ->
  field_groups f v = Some (Some gs) -> field_form f gs /\ forallb (group_fits f) gs = true.
Proof.
  intros Hok Hty Hpos Htk Hg. unfold field_groups in Hg. unfold field_ok in Hok. unfold ty_ok in Hty. unfold field_form.
  assert (Hact : forall T, f_ty f = T -> T <> TyOther -> field_action f = default_action (f_syn f) (f_t f)).
  { intros T ET NT. rewrite ET in Hok. destruct T; try congruence; destruct Hok as [A D]; unfold field_action; rewrite A; reflexivity. }
  assert (Hda : forall T, f_ty f = T -> default_action (f_syn f) (f_t f) =
            match T with TyVec | TyOptionVec | TyVecVec | TyOptionVecVec => AAppend | TyOption | TyOptionOption => ASet
            | _ => default_action (f_syn f) (f_t f) end).
  { intros T ET. unfold default_action. unfold f_ty in ET. rewrite ET. destruct T; reflexivity. }
  destruct (f_ty f) eqn:T; try discriminate Hty.
  - destruct v; discriminate Hg.
  - (* Vec *) rewrite (Hact _ eq_refl ltac:(discriminate)), (Hda _ eq_refl) in *. cbn [action_takes_values] in Htk.
    destruct v; try discriminate Hg. destruct l as [|x l]; [discriminate Hg|].
    destruct (map_opt (ps (f_t f)) (x :: l)) as [ss|] eqn:M; [|discriminate Hg]. rewrite Hpos in Hg. inversion Hg; subst.
    split; [|apply forallb_singletons; exact Htk]. pose proof (map_opt_cons_nonnil _ _ _ _ M) as N. destruct ss; [congruence|discriminate].
  - (* Option *) rewrite (Hact _ eq_refl ltac:(discriminate)), (Hda _ eq_refl) in *. cbn [action_takes_values] in Htk.
    destruct v; try discriminate Hg. destruct o as [x|]; [|discriminate Hg].
    destruct (ps (f_t f) x) as [s|]; [|discriminate Hg]. inversion Hg; subst. split; [eexists; reflexivity|].
    cbn [forallb group_fits]. rewrite Htk. reflexivity.
  - (* OptionOption *) rewrite (Hact _ eq_refl ltac:(discriminate)), (Hda _ eq_refl) in *. cbn [action_takes_values] in Htk.
    destruct v; try discriminate Hg. destruct o as [[x|]|]; [| |discriminate Hg].
    + destruct (ps (f_t f) x) as [s|]; [|discriminate Hg]. inversion Hg; subst. split; [eexists; reflexivity|].
      cbn [forallb group_fits]. rewrite Htk. reflexivity.
    + inversion Hg; subst. split; [eexists; reflexivity|reflexivity].
  - (* OptionVec *) rewrite (Hact _ eq_refl ltac:(discriminate)), (Hda _ eq_refl) in *. cbn [action_takes_values] in Htk.
    destruct v; try discriminate Hg. destruct o as [[|x l]|]; [| |discriminate Hg].
    + inversion Hg; subst. split; [discriminate|reflexivity].
    + destruct (map_opt (ps (f_t f)) (x :: l)) as [ss|] eqn:M; [|discriminate Hg]. rewrite Hpos in Hg. inversion Hg; subst.
      split; [|apply forallb_singletons; exact Htk]. pose proof (map_opt_cons_nonnil _ _ _ _ M) as N. destruct ss; [congruence|discriminate].
  - (* Other *) destruct v; try discriminate Hg. destruct (field_action f) eqn:FA; try (destruct v; discriminate Hg).
    + destruct (ps (f_t f) v) as [s|]; [|discriminate Hg]. inversion Hg; subst. split; [eexists; reflexivity|].
      cbn [forallb group_fits]. rewrite Htk. reflexivity.
    + destruct v as [b| | |]; try discriminate Hg. destruct b; inversion Hg; subst. split; reflexivity.
    + destruct v as [|z| |]; try discriminate Hg. destruct ((0 <=? z) && (z <=? 255))%Z eqn:R; [|discriminate Hg].
      destruct (z =? 0)%Z eqn:Z0; inversion Hg; subst. apply andb_prop in R. destruct R as [R1 R2].
      apply Z.leb_le in R1, R2. apply Z.eqb_neq in Z0. split; [|apply forallb_repeat_nil].
      exists (Z.to_nat z). split; [reflexivity|lia].
Qed.

(** explicit [num_args] consistent with the action: the argument takes values iff its action does *)
Definition takes_ok (f : field) : Prop := takes f = action_takes_values (field_action f).

Lemma printable_nodes : forall ns vs, fields_only ns = true ->
  Forall (fun f => kind_ok (f_kind f) = true /\ ty_ok f = true /\ takes_ok f) (fields_of ns) ->
  ok_nodes ns vs -> printable ns vs.
Proof.
  induction ns as [|n t IH]; intros vs Hfo Hall Hok f v gs Hat Hg; [destruct Hat|].
  destruct n as [f'| |]; cbn [fields_only] in Hfo; try discriminate Hfo.
  destruct vs as [|v' vt]; [destruct Hat|]. cbn [at_node fields_of ok_nodes ok_node] in *.
  inversion Hall as [|? ? (Hk & Hty & Htk) Hall']; subst. destruct Hok as [[Hfok _] Hokt].
  destruct Hat as [[-> ->]|Hat].
  - apply (printable_of_ok f v gs Hfok Hty); [|exact Htk|exact Hg].
    unfold f_is_positional. revert Hk. destruct (f_kind f); intros Hk; [reflexivity|reflexivity|discriminate Hk].
  - apply (IH vt Hfo Hall' Hokt f v gs Hat Hg).
Qed.

(** the composed theorem with the class stated on the derive input alone *)
Theorem roundtrip_parse_sound_ok d bin vs argv m :
  opt_struct d -> Forall takes_ok (fields_of (d_nodes d)) -> ok_nodes (d_nodes d) vs ->
  valid (with_bin (derive_cmd d) bin) = true ->
  print d vs = Some argv ->
  parse_top (derive_cmd d) (bin :: argv) = OOk m ->
  extract d m = XOk vs.
Proof.
  intros Hs Htk Hok. apply roundtrip_parse_sound; [exact Hs| |exact Hok].
  destruct Hs as (Hfo & Hof & _ & _). apply (printable_nodes _ _ Hfo); [|exact Hok].
  apply Forall_forall. intros f Hf. pose proof (proj1 (Forall_forall _ _) Hof f Hf) as (H1 & H2 & _).
  pose proof (proj1 (Forall_forall _ _) Htk f Hf) as H3. auto.
Qed.

(** all outcomes of the derived parser on a printed line: the value itself, or the command's own rejection -- never
    another value, never an extraction error *)
Theorem roundtrip_parse_outcomes d bin vs argv :
  opt_struct d -> Forall takes_ok (fields_of (d_nodes d)) -> ok_nodes (d_nodes d) vs ->
  valid (with_bin (derive_cmd d) bin) = true -> print d vs = Some argv ->
  match derived_parse d (bin :: argv) with
  | PValue vs' => vs' = vs
  | PError k => exists e, parse_top (derive_cmd d) (bin :: argv) = OErr e /\ e_kind e = k
  | PPanic _ | PInvalid => exists o, parse_top (derive_cmd d) (bin :: argv) = o /\ forall m, o <> OOk m
  end.
Proof.
  intros Hs Htk Hok Hv Hp. unfold derived_parse.
  destruct (parse_top (derive_cmd d) (bin :: argv)) as [m|e|s| |] eqn:E; cbn [of_outcome].
  - rewrite (roundtrip_parse_sound_ok d bin vs argv m Hs Htk Hok Hv Hp E). reflexivity.
  - exists e. auto.
  - eexists. split; [reflexivity|]. discriminate.
  - eexists. split; [reflexivity|]. discriminate.
  - eexists. split; [reflexivity|]. discriminate.
Qed.
