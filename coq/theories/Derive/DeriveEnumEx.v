(** Property C15, round 5: the round trip [value -> canonical argv -> value] for ENUM-typed fields of every option shape,
    through the real [EnumValueParser] of the generated arguments; non-vacuity on a struct whose values use a HIDDEN variant. *)
From ClapModel Require Import Base.Bytes Base.Machine Base.Utf8.
From ClapModel Require Import Parse.Cmd Parse.Build Parse.Valid Parse.Matcher Parse.Errors Parse.Validator Parse.Parser.
From ClapModel Require Import Value.PossibleValues.
From ClapModel Require Import ParseProofs.Unparse ParseProofs.UnparseTree ParseProofs.Actions.
From ClapModel Require Import Derive.DeriveModel Derive.DeriveProofs Derive.DeriveCmd Derive.DeriveArgs Derive.DeriveParse
                              Derive.DeriveAccept Derive.DerivePost Derive.DeriveParseEx Derive.DeriveEnum.
From Coq Require Import ZArith List Bool Lia.
Import ListNotations.
Open Scope N_scope.

(** a field of enum type whose attribute combination the printer inverts ([field_ok]) and whose enum has UTF-8 names no two
    kept variants share under the field's comparison *)
Definition enum_field (f : field) : Prop :=
  field_ok f /\ exists e, f_t f = TEnum e /\ names_disjoint (f_icase f) e
                          /\ Forall (fun v => utf8_valid (pv_name (vv_pv v)) = true) e.

Lemma enum_fields_ok : forall ns vs, fields_only ns = true -> Forall enum_field (fields_of ns) -> ok_nodes ns vs.
Proof.
  induction ns as [|n t IH]; intros vs Hfo Hall; [exact I|].
  destruct n as [f| |]; cbn [fields_only] in Hfo; try discriminate Hfo.
  cbn [fields_of] in Hall. inversion Hall as [|? ? [Hok (e & Et & Hd & Hu)] Hall']; subst.
  destruct vs as [|v vt]; [exact I|]. cbn [ok_nodes ok_node]. split; [split; [exact Hok|]|apply IH; assumption].
  apply Forall_forall. intros x _. rewrite Et. apply srt_enum; assumption.
Qed.

(** ROUND TRIP, ENUM FIELDS, EVERY OPTION SHAPE ([E], [Option<E>], [Option<Option<E>>], [Vec<E>], [Option<Vec<E>>]): the derived
    parser reads the canonical line of a value back as that value -- every printed variant name passes the generated
    argument's [EnumValueParser] (hidden variants included) and is read as the variant it was printed for *)
Theorem roundtrip_parse_enum d bin vs argv :
  opt_struct d -> Forall takes_ok (fields_of (d_nodes d)) -> Forall enum_field (fields_of (d_nodes d)) ->
  fits_all (d_nodes d) vs -> required_mentioned (d_nodes d) vs ->
  valid (with_bin (derive_cmd d) bin) = true -> print d vs = Some argv ->
  derived_parse d (bin :: argv) = PValue vs.
Proof.
  intros Hs Htk Hen Hfit Hrm Hv Hp. pose proof Hs as (Hfo & _).
  exact (roundtrip_parse_class d bin vs argv Hs Htk (enum_fields_ok _ vs Hfo Hen) Hfit Hrm Hv Hp).
Qed.

Module EnumEx.
Definition E := ex_henum.     (* alpha | #[value(skip)] beta | #[value(hide = true, alias = "d")] delta *)
Definition fe : field := mkField [101] SynPath (TEnum E) (KLong [101;101]) None None None None None false.
Definition fo : field := mkField [111] (SynOption SynPath) (TEnum E) (KLong [111;101]) None None None None None false.
Definition fv : field := mkField [118] (SynVec SynPath) (TEnum E) (KShort 118) None None None None None false.
Definition fw : field := mkField [119] (SynOption (SynVec SynPath)) (TEnum E) (KLong [111;118]) None None None None None false.
Definition fq : field := mkField [113] (SynOption (SynOption SynPath)) (TEnum E) (KLong [111;111]) None None None None None false.
Definition ns : nodes := NCons (NArg fe) (NCons (NArg fo) (NCons (NArg fv) (NCons (NArg fw) (NCons (NArg fq) NNil)))).
Definition d : dinput := mkDinput b_prog [83] ns.
(** { e: Delta, oe: Some(Alpha), v: [Delta, Alpha], ov: Some([Delta]), oo: Some(None) } -- Delta is the hidden variant *)
Definition v : list dval :=
  [DOne (SvEnum 2); DOpt (Some (SvEnum 0)); DVec [SvEnum 2; SvEnum 0]; DOptVec (Some [SvEnum 2]); DOptOpt (Some None)].
Definition s_delta : bytes := [100;101;108;116;97].
Definition s_alpha : bytes := [97;108;112;104;97].
Definition argv : list bytes :=
  [[45;45;101;101;61] ++ s_delta; [45;45;111;101;61] ++ s_alpha; [45;118;61] ++ s_delta; [45;118;61] ++ s_alpha;
   [45;45;111;118;61] ++ s_delta; [45;45;111;111]].

Lemma ex_print : print d v = Some argv. Proof. vm_compute. reflexivity. Qed.
Lemma ex_struct : opt_struct d.
Proof.
  split; [reflexivity|]. split; [|split].
  - repeat constructor; vm_compute; reflexivity.
  - cbn. repeat constructor; cbn; intuition discriminate.
  - cbn. repeat constructor; cbn; intuition discriminate.
Qed.
Lemma ex_takes : Forall takes_ok (fields_of (d_nodes d)).
Proof. repeat constructor; vm_compute; reflexivity. Qed.
Lemma ex_utf8 : Forall (fun v => utf8_valid (pv_name (vv_pv v)) = true) E.
Proof. repeat constructor. Qed.
Lemma ex_enum_fields : Forall enum_field (fields_of (d_nodes d)).
Proof.
  assert (He : forall f, f_t f = TEnum E -> f_icase f = false -> field_ok f -> enum_field f).
  { intros f Et Hic Hok. split; [exact Hok|]. exists E. rewrite Hic.
    split; [exact Et|]. split; [exact ex_henum_disjoint_cs|exact ex_utf8]. }
  cbn [d_nodes d ns fields_of].
  repeat (apply Forall_cons; [apply He; [reflexivity|reflexivity|first [solve [cbv; intros H; discriminate H]|solve [cbv; auto]]]|]).
  apply Forall_nil.
Qed.
Lemma ex_fits : fits_all (d_nodes d) v. Proof. vm_compute. repeat split; reflexivity. Qed.
Lemma ex_required_mentioned : required_mentioned (d_nodes d) v.
Proof.
  intros f x Hat Hr. cbn [d_nodes d ns v at_node] in Hat.
  destruct Hat as [[<- <-]|[[<- <-]|[[<- <-]|[[<- <-]|[[<- <-]|[]]]]]]; vm_compute in Hr; try discriminate Hr.
  eexists. vm_compute. reflexivity.
Qed.
Lemma ex_valid : valid (with_bin (derive_cmd d) b_prog) = true. Proof. vm_compute. reflexivity. Qed.

(** by the theorem, and by computation *)
Theorem ex_roundtrip : derived_parse d (b_prog :: argv) = PValue v.
Proof. exact (roundtrip_parse_enum d b_prog v argv ex_struct ex_takes ex_enum_fields ex_fits ex_required_mentioned ex_valid ex_print). Qed.
Lemma ex_roundtrip_computed : derived_parse d (b_prog :: argv) = PValue v.
Proof. vm_compute. reflexivity. Qed.
(** the hidden variant's ALIAS "d" is read as the same variant; the skipped variant's name is rejected by the command *)
Lemma ex_alias_and_skip :
  derived_parse d [b_prog; [45;45;101;101;61;100]] = PValue [DOne (SvEnum 2); DOpt None; DVec []; DOptVec None; DOptOpt None]
  /\ derived_parse d [b_prog; [45;45;101;101;61;98;101;116;97]] = PError EInvalidValue.
Proof. split; vm_compute; reflexivity. Qed.
End EnumEx.
