(** Property C15, round 5: the generated ARGUMENT of a derived value-enum field carries the enum's parser, so C04's
    theorems about [PossibleValuesParser] ([TypedWide.stored_possible], [hidden_accepted]) apply to derived fields. *)
From ClapModel Require Import Base.Bytes Base.Machine Base.Utf8.
From ClapModel Require Import Parse.Cmd Parse.Build Parse.Valid Parse.Matcher Parse.Errors Parse.Validator Parse.Parser.
From ClapModel Require Import Value.ValueBase Value.PossibleValues Value.PossibleValuesProofs Value.ValueParsers.
From ClapModel Require Import ParseProofs.UnparseTree ParseProofs.TypedInv ParseProofs.TypedView ParseProofs.TypedWide.
From ClapModel Require Import Derive.DeriveModel Derive.DeriveProofs Derive.DeriveCmd Derive.DeriveArgs Derive.DeriveParse
                              Derive.DeriveFlat Derive.DeriveTotal Derive.DeriveEnum.
From Coq Require Import ZArith List Bool Lia.
Import ListNotations.
Open Scope N_scope.

(** [gen_augment] + [Arg::_build]: the argument of a (non-unit) field of enum type has the parser
    [EnumValueParser::<E>] = [VPPossible] over the kept variants, working with the argument's own [ignore_case] *)
Theorem enum_field_parser f e : f_t f = TEnum e -> f_ty f <> TyUnit ->
  a_vp (bf f) = Some (Cmd.VPPossible (f_icase f) (enum_pvs e))
  /\ a_ignore_case (bf f) = f_icase f
  /\ pv_coherent (bf f) = true.
Proof.
  intros Et Hnu.
  assert (Hvp : a_vp (bf f) = Some (Cmd.VPPossible (f_icase f) (enum_pvs e))).
  { rewrite bf_vp_eq. unfold field_vp. rewrite Et. destruct (f_ty f); try reflexivity. contradiction Hnu; reflexivity. }
  destruct (bf_frame f) as (_ & _ & _ & _ & _ & _ & _ & _ & _ & _ & _ & _ & Hic & _).
  split; [exact Hvp|]. split; [exact Hic|]. unfold pv_coherent. rewrite Hvp, Hic. apply Bool.eqb_reflx.
Qed.

(** C04 APPLIES TO DERIVED ENUM FIELDS.  In any matcher whose entries are typed for the built generated command (C04's
    invariant of every reachable parser state: [TypedInv.typed_entries]), every string stored for an enum field is UTF-8, is --
    byte for byte, or caselessly under the field's [ignore_case] -- a name or alias of a NON-SKIPPED variant (hidden or
    not), its typed value for the parser is the string itself, and [ValueEnum::from_str] reads it as a variant *)
Theorem enum_field_stored (d : dinput) (bin : bytes) l f e ma :
  flat_nodes (d_nodes d) = true -> valid (UnparseTree.with_bin (derive_cmd d) bin) = true ->
  typed_entries (built d bin) l ->
  In f (leaves (d_nodes d)) -> f_t f = TEnum e -> f_ty f <> TyUnit -> In (f_id f, ma) l ->
  Forall (Forall (fun s =>
     utf8_valid s = true
     /\ (exists i v n, nth_error e i = Some v /\ vv_skip v = false /\ In n (name_and_aliases (vv_pv v))
                       /\ name_eq clap_unicode (f_icase f) n s)
     /\ typed_value (Cmd.VPPossible (f_icase f) (enum_pvs e)) s = Some (TVal (TVStr s))
     /\ exists i, parse_scalar (TEnum e) (f_icase f) s = Some (SvEnum i))) (m_raw ma).
Proof.
  intros Hfo Hv Hte Hf Et Hnu Hin.
  pose proof (builtg_app d bin Hv) as Happ. pose proof (assert_app_W3 _ Happ) as W3.
  destruct (builtg_of d bin Hfo f Hf) as [a' [Ha' Hof]].
  destruct (of_field_facts f a' Hof) as (Fid & Fvp & _).
  destruct (enum_field_parser f e Et Hnu) as (Hvp & _ & _). rewrite Hvp in Fvp.
  rewrite <- Fid in Hin.
  pose proof (stored_possible (built d bin) l Hte (a_id a') ma a' Hin (W3 a' Ha') (f_icase f) (enum_pvs e) Fvp) as H.
  eapply Forall_impl; [|exact H]. intros g Hg. eapply Forall_impl; [|exact Hg]. cbv beta.
  intros s (Hu & (pv & h & n & Hpv & Hn & Hne) & Htv).
  split; [exact Hu|]. split; [|split; [exact Htv|]].
  - apply enum_pvs_in in Hpv. destruct Hpv as (i & v & H1 & H2 & -> & _). exists i, v, n. auto.
  - apply (enum_accepts_iff false). cbn [vp_of]. apply typed_value_accepts. eexists. exact Htv.
Qed.

(** the instance of C04's [hidden_accepted] for a derived field: a name or alias of a hidden variant passes the parser of the
    generated argument and is stored as typed-in *)
Theorem enum_field_hidden_accepted f e i v n :
  f_t f = TEnum e -> f_ty f <> TyUnit ->
  nth_error e i = Some v -> vv_skip v = false -> vv_hide v = true ->
  In n (name_and_aliases (vv_pv v)) -> utf8_valid n = true ->
  exists vp, a_vp (bf f) = Some vp /\ accepts vp n /\ typed_value vp n = Some (TVal (TVStr n)).
Proof.
  intros Et Hnu Hn Hs Hh Hin Hu. destruct (enum_field_parser f e Et Hnu) as (Hvp & _ & _).
  exists (Cmd.VPPossible (f_icase f) (enum_pvs e)). split; [exact Hvp|].
  apply (hidden_accepted (f_icase f) (enum_pvs e) (vv_pv v) true n); [|exact Hin|exact Hu].
  apply enum_pvs_in. exists i, v. auto.
Qed.
