(** Property C15, composition with the parser model (part 2): the built arguments of a derived
    field struct in closed form, the key map of the built command (every [--long] / [-s] of a
    field resolves to that field's argument), membership in C02's class [conv]. *)
From ClapModel Require Import Base.Bytes Base.Machine Base.Utf8.
From ClapModel Require Import Parse.Cmd Parse.Build Parse.Valid Parse.Matcher Parse.Errors Parse.Validator Parse.Parser.
From ClapModel Require Import ParseProofs.Totality ParseProofs.Actions ParseProofs.Sources
                              ParseProofs.Unparse ParseProofs.UnparseProofs ParseProofs.UnparseTop
                              ParseProofs.UnparseSub ParseProofs.UnparseTrail ParseProofs.UnparseTree.
From ClapModel Require Import Derive.DeriveModel Derive.DeriveProofs Derive.DeriveCmd.
From Coq Require Import ZArith List Bool Lia.
From RecordUpdate Require Import RecordSet.
Import RecordSetNotations.
Import ListNotations.
Open Scope N_scope.

(** * 1. [gen_augment], arm [Kind::Arg], in closed form (parse flavour) *)
Definition field_num (f : field) : option vrange :=
  match f_num f with
  | Some r => Some r
  | None => match f_ty f with
            | TyOptionOption => Some r_opt
            | TyOptionVec | TyVec => if f_is_positional f then Some r_one_or_more else None
            | _ => None end
  end.
Definition field_required (f : field) : bool :=
  match f_required f with
  | Some r => r
  | None => match f_ty f with
            | TyOther => negb (is_some (f_default f)) && action_takes_values (field_action f)
            | _ => false end
  end.
Definition field_vp (f : field) : option vparser :=
  match f_ty f with TyUnit => None | _ => Some (vp_of (is_count (Some (field_action f))) (f_icase f) (f_t f)) end.

Definition field_arg_cf (f : field) : arg :=
  mkArg (f_id f)
    (match f_kind f with KShort c => Some c | _ => None end)
    (match f_kind f with KLong l => Some l | _ => None end)
    [] [] None (Some (field_action f)) (field_num f)
    0 (f_delim f) None (field_vp f) (field_required f)
    false false false false false false false false (f_icase f)
    (match f_default f with Some d => [d] | None => [] end) [] [] None [] [] [] [] [] [] [] [] None.

Lemma field_arg_closed f : field_arg false f = field_arg_cf f.
Proof.
  unfold field_arg, field_arg_cf, field_num, field_required, field_vp, f_is_positional.
  generalize (field_action f). intros act.
  destruct (f_ty f), (f_kind f), (f_default f), (f_required f) as [[|]|], (f_num f), (f_delim f), (f_icase f); reflexivity.
Qed.

(** the field's argument after [Arg::_build] *)
Definition bf (f : field) : arg := arg_build (field_arg false f).

Definition bf_num (f : field) : vrange :=
  match field_num f with Some r => r | None => action_default_num_args (field_action f) end.
Definition bf_default (f : field) : list bytes :=
  match f_default f with
  | Some d => [d]
  | None => match action_default_value (field_action f) with Some d => [d] | None => [] end
  end.
Definition bf_dmissing (f : field) : list bytes :=
  match action_default_missing_value (field_action f) with Some d => [d] | None => [] end.

Lemma bf_frame f :
  a_id (bf f) = f_id f
  /\ a_long (bf f) = (match f_kind f with KLong l => Some l | _ => None end)
  /\ a_short (bf f) = (match f_kind f with KShort c => Some c | _ => None end)
  /\ a_aliases (bf f) = [] /\ a_short_aliases (bf f) = [] /\ a_index (bf f) = None
  /\ a_delim (bf f) = f_delim f /\ a_overrides (bf f) = [] /\ a_env (bf f) = None
  /\ a_default_ifs (bf f) = [] /\ a_required (bf f) = field_required f
  /\ conv_arg (bf f) = true /\ a_ignore_case (bf f) = f_icase f /\ a_groups (bf f) = [].
Proof.
  unfold bf. destruct (arg_build_frame (field_arg false f)) as (H1 & H2 & H3 & H4 & H5 & H6 & H7 & H8 & H9 & H10 & H11 & H12 & H13 & H14).
  rewrite H1, H2, H3, H4, H5, H6, H7, H8, H9, H10, H11, H12, H13, H14. rewrite field_arg_closed.
  repeat split; reflexivity.
Qed.
Lemma bf_action f : a_get_action (bf f) = field_action f.
Proof. unfold bf. apply (arg_build_action (field_arg false f)). rewrite field_arg_closed. reflexivity. Qed.
Lemma bf_num_eq f : a_num (bf f) = Some (bf_num f).
Proof.
  unfold bf, bf_num. rewrite field_arg_closed. unfold arg_build, field_arg_cf.
  destruct (field_num f) as [r|], (field_vp f) as [v|], (f_default f) as [d|], (field_action f); reflexivity.
Qed.
Lemma bf_default_eq f : a_default (bf f) = bf_default f.
Proof.
  unfold bf, bf_default. rewrite field_arg_closed. unfold arg_build, field_arg_cf.
  destruct (field_num f) as [r|], (field_vp f) as [v|], (f_default f) as [d|], (field_action f); reflexivity.
Qed.
Lemma bf_dmissing_eq f : a_default_missing (bf f) = bf_dmissing f.
Proof.
  unfold bf, bf_dmissing. rewrite field_arg_closed. unfold arg_build, field_arg_cf.
  destruct (field_num f) as [r|], (field_vp f) as [v|], (f_default f) as [d|], (field_action f); reflexivity.
Qed.
Lemma bf_vp_eq f : a_vp (bf f) = Some (match field_vp f with Some v => v | None =>
                                          opt_default VPString (action_default_vp (field_action f)) end).
Proof.
  unfold bf. rewrite field_arg_closed. unfold arg_build, field_arg_cf.
  destruct (field_num f) as [r|], (field_vp f) as [v|], (f_default f) as [d|], (field_action f); reflexivity.
Qed.
Lemma bf_takes f : a_takes_value (bf f) = r_takes_values (bf_num f).
Proof. unfold a_takes_value. rewrite bf_num_eq. reflexivity. Qed.
Lemma bf_positional f : a_is_positional (bf f) = f_is_positional f.
Proof.
  unfold a_is_positional, f_is_positional. destruct (bf_frame f) as (_ & H2 & H3 & _). rewrite H2, H3.
  destruct (f_kind f); reflexivity.
Qed.

(** * 2. the built command of a struct of option fields *)
Definition built (d : dinput) (bin : bytes) : cmd := build_self (with_bin (derive_cmd d) bin).

Lemma built_root d bin : fields_only (d_nodes d) = true ->
  built d bin = build_self (root_cmd (d_name d) (map (field_arg false) (fields_of (d_nodes d)))
                                     [struct_group (d_gid d) (d_nodes d)] (bin_of bin)).
Proof. intros H. unfold built, derive_cmd. rewrite (derive_cmd_fields false d H), with_bin_root. reflexivity. Qed.

Lemma help_arg_groups : a_groups help_arg = []. Proof. reflexivity. Qed.

Lemma field_arg_groups f : a_groups (field_arg false f) = [].
Proof. rewrite field_arg_closed. reflexivity. Qed.

Lemma built_args d bin : fields_only (d_nodes d) = true ->
  c_args (built d bin) = bargs 1 (map (field_arg false) (fields_of (d_nodes d)) ++ [help_arg]).
Proof.
  intros H. rewrite (built_root d bin H), root_built_args, build_args_bargs; [reflexivity|].
  apply Forall_app. split; [|constructor; [reflexivity|constructor]].
  apply Forall_forall. intros a Ha. apply in_map_iff in Ha. destruct Ha as [f [<- _]]. apply field_arg_groups.
Qed.
Lemma built_groups d bin : fields_only (d_nodes d) = true ->
  c_groups (built d bin) = [struct_group (d_gid d) (d_nodes d)].
Proof.
  intros H. rewrite (built_root d bin H), root_built_groups, build_args_bargs; [reflexivity|].
  apply Forall_app. split; [|constructor; [reflexivity|constructor]].
  apply Forall_forall. intros a Ha. apply in_map_iff in Ha. destruct Ha as [f [<- _]]. apply field_arg_groups.
Qed.
Lemma built_subs d bin : fields_only (d_nodes d) = true -> c_subs (built d bin) = [].
Proof. intros H. rewrite (built_root d bin H). apply root_built_subs. Qed.
Lemma built_is_set f d bin : fields_only (d_nodes d) = true -> is_set f (built d bin) = f set_root || f settings_none.
Proof. intros H. rewrite (built_root d bin H). apply root_built_is_set. Qed.

Lemma field_arg_positional f : a_is_positional (field_arg false f) = f_is_positional f.
Proof. rewrite field_arg_closed. unfold field_arg_cf, a_is_positional, f_is_positional. destruct (f_kind f); reflexivity. Qed.

(** option fields only: nothing is positional, [bargs] is [map arg_build] *)
Lemma bargs_opts : forall args pc, Forall (fun a => a_is_positional a = false) args -> bargs pc args = map arg_build args.
Proof.
  induction args as [|a t IH]; intros pc H; [reflexivity|]. inversion H as [|? ? Ha Ht]; subst.
  cbn [bargs map]. rewrite arg_build_positional, Ha. cbn [andb]. rewrite (IH pc Ht). reflexivity.
Qed.

Definition hb : arg := arg_build help_arg.

Lemma built_args_opts d bin : fields_only (d_nodes d) = true ->
  Forall (fun f => f_is_positional f = false) (fields_of (d_nodes d)) ->
  c_args (built d bin) = map bf (fields_of (d_nodes d)) ++ [hb].
Proof.
  intros H Hp. rewrite (built_args d bin H), bargs_opts.
  - rewrite map_app, map_map. unfold bf, hb. cbn [map]. reflexivity.
  - apply Forall_app. split; [|constructor; [reflexivity|constructor]].
    apply Forall_forall. intros a Ha. apply in_map_iff in Ha. destruct Ha as [f [<- Hf]].
    rewrite Forall_forall in Hp. rewrite field_arg_positional. apply Hp. exact Hf.
Qed.

(** * 3. key lookup: the first argument holding the key, hence the only one *)
Lemma in_keymap c k a : In (k, a) (keymap c) <-> In a (c_args c) /\ In k (arg_keys a).
Proof.
  unfold keymap. rewrite in_flat_map. split.
  - intros [a' [Ha Hk]]. apply in_map_iff in Hk. destruct Hk as [k' [E Hk']]. inversion E; subst. auto.
  - intros [Ha Hk]. exists a. split; [exact Ha|]. apply in_map_iff. exists k. auto.
Qed.

Lemma get_long_first c l a : In a (c_args c) -> In (Cmd.KLong l) (arg_keys a) ->
  (forall a', In a' (c_args c) -> In (Cmd.KLong l) (arg_keys a') -> a' = a) -> get_long c l = Some a.
Proof.
  intros Ha Hk Hu. unfold get_long.
  destruct (find_some_ex (fun p => match fst p with Cmd.KLong l' => beq l' l | _ => false end) (keymap c) (Cmd.KLong l, a))
    as [[k' a'] Hf].
  - apply in_keymap. auto.
  - cbn. apply beq_refl.
  - rewrite Hf. cbn [opt_map snd]. apply find_some in Hf. destruct Hf as [Hin Hp]. cbn [fst] in Hp.
    destruct k' as [s|l'|n]; try discriminate. apply beq_eq in Hp. subst l'.
    apply in_keymap in Hin. destruct Hin as [Ha' Hk']. rewrite (Hu a' Ha' Hk'). reflexivity.
Qed.
Lemma get_short_first c s a : In a (c_args c) -> In (Cmd.KShort s) (arg_keys a) ->
  (forall a', In a' (c_args c) -> In (Cmd.KShort s) (arg_keys a') -> a' = a) -> get_short c s = Some a.
Proof.
  intros Ha Hk Hu. unfold get_short.
  destruct (find_some_ex (fun p => match fst p with Cmd.KShort s' => s' =? s | _ => false end) (keymap c) (Cmd.KShort s, a))
    as [[k' a'] Hf].
  - apply in_keymap. auto.
  - cbn. apply N.eqb_refl.
  - rewrite Hf. cbn [opt_map snd]. apply find_some in Hf. destruct Hf as [Hin Hp]. cbn [fst] in Hp.
    destruct k' as [s'|l'|n]; try discriminate. apply N.eqb_eq in Hp. subst s'.
    apply in_keymap in Hin. destruct Hin as [Ha' Hk']. rewrite (Hu a' Ha' Hk'). reflexivity.
Qed.

Lemma bf_keys f : arg_keys (bf f) =
  match f_kind f with KLong l => [Cmd.KLong l] | KShort c => [Cmd.KShort c] | KPos => [] end.
Proof.
  unfold arg_keys. destruct (bf_frame f) as (_ & H2 & H3 & H4 & H5 & H6 & _). rewrite H2, H3, H4, H5, H6.
  destruct (f_kind f); reflexivity.
Qed.
Lemma hb_keys : arg_keys hb = [Cmd.KShort 104; Cmd.KLong s_help]. Proof. reflexivity. Qed.

(** the class of field lists: named by long or short option, names as they can be typed, not the
    generated help flag's names, pairwise distinct *)
Definition kind_ok (k : akind) : bool :=
  match k with
  | KLong l => name_ok l && negb (beq l s_help)
  | KShort c => short_ok c && negb (c =? 104)
  | KPos => false
  end.

Lemma filter_pos_bf fs : Forall (fun f => f_is_positional f = false) fs -> filter a_is_positional (map bf fs) = [].
Proof.
  induction fs as [|f t IH]; intros Hp; [reflexivity|]. inversion Hp as [|? ? H1 H2]; subst.
  cbn [map filter]. rewrite bf_positional, H1. apply IH. exact H2.
Qed.

Section Lookup.
Variable d : dinput.
Variable bin : bytes.
Hypothesis Hfo : fields_only (d_nodes d) = true.
Hypothesis Hk : Forall (fun f => kind_ok (f_kind f) = true) (fields_of (d_nodes d)).
Hypothesis Hnd : NoDup (map f_kind (fields_of (d_nodes d))).

Lemma kinds_not_positional : Forall (fun f => f_is_positional f = false) (fields_of (d_nodes d)).
Proof.
  eapply Forall_impl; [|exact Hk]. intros f H. cbn beta in H. unfold f_is_positional. revert H. destruct (f_kind f); intros H; [reflexivity|reflexivity|cbn in H; discriminate H].
Qed.

Lemma built_args_eq : c_args (built d bin) = map bf (fields_of (d_nodes d)) ++ [hb].
Proof. apply built_args_opts; [exact Hfo|exact kinds_not_positional]. Qed.

Lemma bf_in f : In f (fields_of (d_nodes d)) -> In (bf f) (c_args (built d bin)).
Proof. intros H. rewrite built_args_eq. apply in_or_app. left. apply in_map. exact H. Qed.

Lemma built_arg_cases a : In a (c_args (built d bin)) -> (exists f, In f (fields_of (d_nodes d)) /\ a = bf f) \/ a = hb.
Proof.
  rewrite built_args_eq. intros H. apply in_app_or in H. destruct H as [H|[H|[]]].
  - apply in_map_iff in H. destruct H as [f [E Hf]]. left. exists f. auto.
  - right. auto.
Qed.

Lemma lookup_long f l : In f (fields_of (d_nodes d)) -> f_kind f = KLong l -> get_long (built d bin) l = Some (bf f).
Proof.
  intros Hf Ek. apply get_long_first.
  - apply bf_in. exact Hf.
  - rewrite bf_keys, Ek. left. reflexivity.
  - intros a' Ha' Hk'. destruct (built_arg_cases a' Ha') as [[f' [Hf' ->]]| ->].
    + rewrite bf_keys in Hk'. f_equal. apply (nodup_map_inj f_kind _ f' f Hnd Hf' Hf). rewrite Ek.
      revert Hk'. destruct (f_kind f') as [l'|c'|]; cbn [In]; intros Hk'; [| |destruct Hk']; destruct Hk' as [E|[]]; inversion E; subst; reflexivity.
    + exfalso. rewrite hb_keys in Hk'. destruct Hk' as [E|[E|[]]]; [discriminate|]. inversion E; subst.
      pose proof (proj1 (Forall_forall _ _) Hk f Hf) as Hkf. cbn beta in Hkf. rewrite Ek in Hkf. cbn in Hkf.
      discriminate Hkf.
Qed.
Lemma lookup_short f c : In f (fields_of (d_nodes d)) -> f_kind f = KShort c -> get_short (built d bin) c = Some (bf f).
Proof.
  intros Hf Ek. apply get_short_first.
  - apply bf_in. exact Hf.
  - rewrite bf_keys, Ek. left. reflexivity.
  - intros a' Ha' Hk'. destruct (built_arg_cases a' Ha') as [[f' [Hf' ->]]| ->].
    + rewrite bf_keys in Hk'. f_equal. apply (nodup_map_inj f_kind _ f' f Hnd Hf' Hf). rewrite Ek.
      revert Hk'. destruct (f_kind f') as [l'|c'|]; cbn [In]; intros Hk'; [| |destruct Hk']; destruct Hk' as [E|[]]; inversion E; subst; reflexivity.
    + exfalso. rewrite hb_keys in Hk'. destruct Hk' as [E|[E|[]]]; [|discriminate]. inversion E; subst.
      pose proof (proj1 (Forall_forall _ _) Hk f Hf) as Hkf. cbn beta in Hkf. rewrite Ek in Hkf. cbn in Hkf.
      discriminate Hkf.
Qed.

(** * 4. the generated command lies in C02's class *)
Lemma built_positionals : positionals (built d bin) = [].
Proof.
  unfold positionals. rewrite built_args_eq, filter_app.
  rewrite (filter_pos_bf _ kinds_not_positional). reflexivity.
Qed.

Theorem built_conv : valid (with_bin (derive_cmd d) bin) = true -> conv (built d bin) = true.
Proof.
  intros Hv. unfold conv. apply valid_assert_app in Hv. fold (built d bin) in Hv. rewrite Hv.
  rewrite !(built_is_set _ d bin Hfo). cbn [s_sub_precedence s_allow_missing_pos set_root settings_none orb negb andb].
  unfold low_index_multiple. rewrite built_positionals. cbn [existsb negb andb]. rewrite andb_true_r.
  rewrite built_args_eq. rewrite forallb_app. cbn [forallb]. rewrite andb_true_r.
  assert (E : conv_arg hb = true) by reflexivity. rewrite E, andb_true_r.
  apply forallb_forall. intros a Ha. apply in_map_iff in Ha. destruct Ha as [f [<- _]].
  destruct (bf_frame f) as (_ & _ & _ & _ & _ & _ & _ & _ & _ & _ & _ & H & _). exact H.
Qed.

Lemma built_no_ignore_errors : is_set s_ignore_errors (built d bin) = false.
Proof. rewrite (built_is_set _ d bin Hfo). reflexivity. Qed.

Lemma built_no_overrides : no_overrides (built d bin) = true.
Proof.
  unfold no_overrides. apply forallb_forall. intros a Ha. destruct (built_arg_cases a Ha) as [[f [_ ->]]| ->].
  - destruct (bf_frame f) as (_ & _ & _ & _ & _ & _ & _ & H & _). rewrite H. reflexivity.
  - reflexivity.
Qed.

End Lookup.
