(** The derive macros as a translator (property C15).

    A *derive input* ([node]/[nodes]/[variants]) is the information the macro reads from a
    struct or enum definition; the functions below are what the generated code does:

      [ty_of_syn]/[from_syn_ty]    utils/ty.rs     [Ty::from_syn_ty] (feature unstable-v5 on)
      [default_action]             item.rs         [default_action]
      [vp_of]                      item.rs         [default_value_parser] = [value_parser!(T)]
      [field_arg]                  derives/args.rs [gen_augment], arm [Kind::Arg]
      [augment]                    derives/args.rs [gen_augment] (group, flatten, subcommand arms),
                                   derives/subcommand.rs [gen_augment]
      [derive_cmd], [derive_cmd_for_update]  derives/into_app.rs [gen_for_struct]
      [field_value], [extract_*]   derives/args.rs [gen_parsers], [gen_constructor],
                                   derives/subcommand.rs [gen_from_arg_matches], [gen_has_subcommand]
      [update_*]                   derives/args.rs [gen_updater],
                                   derives/subcommand.rs [gen_update_from_arg_matches]
      [ve_from_str]                clap_builder/src/derive.rs [ValueEnum::from_str],
                                   derives/value_enum.rs [lits]/[gen_value_variants]/[gen_to_possible_value]
      [derived_parse], [derived_update]  clap_builder/src/derive.rs [Parser::try_parse_from], [try_update_from]

    The generated command is a [Parse.Cmd.cmd], i.e. exactly what the parser model consumes;
    the matches are [Parse.Matcher.matches] (raw values, one group per occurrence); the typed
    value of a raw value is its image under the value parser of the field's element type
    ([parse_scalar]) - the parser stores [AnyValue]s produced by the very same function.
    Every [unwrap]/[expect] of the generated code is a visible [XPanic site]. *)
From ClapModel Require Import Base.Bytes Base.Machine Base.Utf8.
From ClapModel Require Import Parse.Cmd Parse.Build Parse.Matcher Parse.Errors Parse.Parser.
From ClapModel Require Import Value.ValueBase Value.PossibleValues.
From Coq Require Import ZArith.
From RecordUpdate Require Import RecordSet.
Import RecordSetNotations.
Open Scope N_scope.

(** ---------------------------------------------------------------- value enums *)
(** One variant of a [#[derive(ValueEnum)]] enum: [#[value(skip)]], and the possible value
    built by [lits] (cased name, aliases). *)
Record vvariant := mkVv { vv_skip : bool; vv_pv : possible_value; vv_hide : bool (* [#[value(hide = true)]] *) }.
Definition venum := list vvariant.

(** [lits]: the non-skipped variants, each with its declaration index. *)
Fixpoint lits_from (i : nat) (e : venum) : list (nat * possible_value) :=
  match e with
  | [] => []
  | v :: t => if vv_skip v then lits_from (S i) t else (i, vv_pv v) :: lits_from (S i) t
  end.
Definition lits (e : venum) := lits_from 0 e.

(** [ValueEnum::from_str]: the first of [value_variants()] whose possible value matches.
    ([uni] = cargo feature `unicode` of clap_builder.) *)
Definition uni := true.
Definition ve_from_str (e : venum) (s : bytes) (ignore_case : bool) : option nat :=
  opt_map fst (find (fun p => pv_matches uni (snd p) s ignore_case) (lits e)).

(** [to_possible_value]: [None] for a skipped variant (the [_ => None] arm) or an index out of range. *)
Definition ve_to_possible_value (e : venum) (i : nat) : option possible_value :=
  match nth_error e i with
  | Some v => if vv_skip v then None else Some (vv_pv v)
  | None => None
  end.

(** [EnumValueParser::<E>]: the possible values [E::value_variants().filter_map(to_possible_value)] -- the
    NON-SKIPPED variants, hidden ones included -- each with its [is_hide_set] flag.  [parse_ref] accepts a
    string iff one of them [matches] it under the argument's [ignore_case] (no [is_hide_set] filter: that
    filter is applied to the error message's list only), which is [PossibleValuesParser] over the same
    list: [Cmd.VPPossible ic (enum_pvs e)] (equal language: [DeriveEnum.enum_parser_language]; the one
    difference is the error KIND for a non-UTF-8 string: [invalid_value] here, [invalid_utf8] there). *)
Fixpoint enum_pvs (e : venum) : list (possible_value * bool) :=
  match e with
  | [] => []
  | v :: t => if vv_skip v then enum_pvs t else (vv_pv v, vv_hide v) :: enum_pvs t
  end.

(** ---------------------------------------------------------------- types *)
(** Element types [T] of the corpus.  [TBool] is Rust [bool]; [TU8] is [u8]; a counter is a
    [u8] field with the explicit attribute [action = ArgAction::Count]. *)
Inductive vty := TBool | TU8 | TI64 | TStr | TEnum (e : venum).

Inductive sval := SvBool (b : bool) | SvInt (z : Z) | SvStr (s : bytes) | SvEnum (i : nat).

(** [utils/ty.rs Ty] *)
Inductive Ty := TyUnit | TyVec | TyVecVec | TyOption | TyOptionOption | TyOptionVec | TyOptionVecVec | TyOther.

(** The syntactic shape of a field type as far as [from_syn_ty] looks: a path with one generic
    argument named Option/Vec, the unit tuple, or anything else. *)
Inductive syn_ty := SynUnit | SynOption (t : syn_ty) | SynVec (t : syn_ty) | SynPath.

Definition is_generic_vec t := match t with SynVec _ => true | _ => false end.
Definition is_generic_option t := match t with SynOption _ => true | _ => false end.
(** [get_vec_ty] with feature unstable-v5 *)
Definition get_vec_ty (t : syn_ty) (vec_ty vecvec_ty : Ty) : option Ty :=
  match t with
  | SynVec sub => Some (if is_generic_vec sub then vecvec_ty else vec_ty)
  | _ => None
  end.
(** [Ty::from_syn_ty] *)
Definition from_syn_ty (t : syn_ty) : Ty :=
  match t with
  | SynUnit => TyUnit
  | _ =>
    match get_vec_ty t TyVec TyVecVec with
    | Some vt => vt
    | None =>
      match t with
      | SynOption sub =>
          if is_generic_option sub then TyOptionOption
          else match get_vec_ty sub TyOptionVec TyOptionVecVec with
               | Some vt => vt
               | None => TyOption
               end
      | _ => TyOther
      end
    end
  end.

(** How an argument is named on the command line ([#[arg(long)]], [#[arg(short)]], neither). *)
Inductive akind := KLong (l : bytes) | KShort (c : N) | KPos.

Record field := mkField {
  f_id : bytes;                 (* the field identifier = [Name::Derived] = the arg id *)
  f_syn : syn_ty;               (* shape of the declared type *)
  f_t : vty;                    (* innermost type ([inner_type]) *)
  f_kind : akind;
  f_action : option action;     (* explicit [action = ...] attribute *)
  f_default : option bytes;     (* [default_value = "..."] *)
  f_required : option bool;     (* explicit [required = ...] *)
  f_num : option vrange;        (* explicit [num_args = ...] *)
  f_delim : option N;           (* [value_delimiter = '.'] *)
  f_icase : bool                (* [ignore_case = true] *)
}.
Definition f_ty (f : field) : Ty := from_syn_ty (f_syn f).
Definition f_is_positional (f : field) := match f_kind f with KPos => true | _ => false end.

(** The derive input.  [NFlatten opt gid body]: [#[command(flatten)] x: S] / [Option<S>] where
    [S] has group id [gid] and fields [body].  [NSub opt vs]: [#[command(subcommand)] x: E] /
    [Option<E>].  A variant: cased subcommand name, the group id of what it holds ([None] for a
    unit variant; the struct's ident for [V(S)]; the variant's ident for [V { .. }]) and fields. *)
Inductive node :=
| NArg (f : field)
| NFlatten (opt : bool) (gid : bytes) (body : nodes)
| NSub (opt : bool) (vs : variants)
with nodes := NNil | NCons (n : node) (t : nodes)
with variants := VNil | VCons (cname : bytes) (gid : option bytes) (body : nodes) (t : variants).

Scheme node_mind := Induction for node Sort Prop
  with nodes_mind := Induction for nodes Sort Prop
  with variants_mind := Induction for variants Sort Prop.
Combined Scheme derive_mutind from node_mind, nodes_mind, variants_mind.

(** ---------------------------------------------------------------- value parsers *)
Definition i64_lo : Z := i64_min.
Definition i64_hi : Z := i64_max.

(** [value_parser!(T)] as a [Cmd.vparser].  An enum's [EnumValueParser] is the parser model's
    [VPPossible] over [enum_pvs e]; [ic] is the [ignore_case] of the argument the parser is attached to
    ([parse_ref] reads [arg.is_ignore_case_set()]; [Cmd.pv_coherent]). *)
Definition vp_of (counter : bool) (ic : bool) (t : vty) : vparser :=
  match t with
  | TBool => VPBool
  | TU8 => if counter then VPCount else VPI64 0 255
  | TI64 => VPI64 i64_lo i64_hi
  | TStr => VPString
  | TEnum e => VPPossible ic (enum_pvs e)
  end.

(** The typed value the parser stores for a raw value. *)
Definition parse_int_in (lo hi : Z) (s : bytes) : option sval :=
  if negb (utf8_valid s) then None
  else match parse_i64 s with
       | Some z => if ((lo <=? z) && (z <=? hi))%Z then Some (SvInt z) else None
       | None => None
       end.
Definition parse_scalar (t : vty) (icase : bool) (s : bytes) : option sval :=
  match t with
  | TBool => if beq s s_true then Some (SvBool true) else if beq s s_false then Some (SvBool false) else None
  | TU8 => parse_int_in 0 255 s
  | TI64 => parse_int_in i64_lo i64_hi s
  | TStr => if utf8_valid s then Some (SvStr s) else None
  | TEnum e => if negb (utf8_valid s) then None else opt_map SvEnum (ve_from_str e s icase)
  end.

(** ---------------------------------------------------------------- gen_augment *)
Definition is_count (a : option action) := match a with Some ACount => true | _ => false end.

(** [default_action] *)
Definition default_action (t : syn_ty) (elem : vty) : action :=
  match from_syn_ty t with
  | TyVec | TyOptionVec | TyVecVec | TyOptionVecVec => AAppend
  | TyOption | TyOptionOption => ASet
  | _ => match t, elem with
         | SynPath, TBool => ASetTrue       (* is_simple_ty(field_type, "bool") *)
         | _, _ => ASet
         end
  end.
Definition field_action (f : field) : action :=
  match f_action f with Some a => a | None => default_action (f_syn f) (f_t f) end.
(** [ArgAction::takes_values] *)
Definition action_takes_values (a : action) : bool := match a with ASet | AAppend => true | _ => false end.

Definition r_opt : vrange := {| vmin := 0; vmax := 1 |}.
Definition r_one_or_more : vrange := {| vmin := 1; vmax := usize_max |}.

(** [gen_augment], arm [Kind::Arg]: [Arg::new(id)] + implicit methods + explicit methods
    (+ [.required(false)] for the update command). *)
Definition field_arg (override_required : bool) (f : field) : arg :=
  let act := field_action f in
  let a := arg_new (f_id f) in
  (* implicit methods *)
  let a := a <| a_action := Some act |> in
  let a := match f_ty f with
           | TyUnit => a                                       (* no value_parser *)
           | _ => a <| a_vp := Some (vp_of (is_count (Some act)) (f_icase f) (f_t f)) |>
           end in
  let a := match f_ty f with
           | TyOptionOption => a <| a_num := Some r_opt |>
           | TyOptionVec | TyVec => if f_is_positional f then a <| a_num := Some r_one_or_more |> else a
           | TyOther => a <| a_required := negb (is_some (f_default f)) && action_takes_values act |>
           | _ => a
           end in
  (* explicit methods *)
  let a := match f_kind f with
           | KLong l => a <| a_long := Some l |>
           | KShort c => a <| a_short := Some c |>
           | KPos => a
           end in
  let a := match f_default f with Some d => a <| a_default := [d] |> | None => a end in
  let a := match f_required f with Some r => a <| a_required := r |> | None => a end in
  let a := match f_num f with Some r => a <| a_num := Some r |> | None => a end in
  let a := match f_delim f with Some d => a <| a_delim := Some d |> | None => a end in
  let a := if f_icase f then a <| a_ignore_case := true |> else a in
  if override_required then a <| a_required := false |> else a.

(** ids of the [Kind::Arg] fields / whether a [Kind::Flatten] field exists *)
Fixpoint literal_members (ns : nodes) : list id :=
  match ns with
  | NNil => []
  | NCons (NArg f) t => f_id f :: literal_members t
  | NCons _ t => literal_members t
  end.
Fixpoint has_flatten (ns : nodes) : bool :=
  match ns with
  | NNil => false
  | NCons (NFlatten _ _ _) _ => true
  | NCons _ t => has_flatten t
  end.
(** the group of a struct: [ArgGroup::new(gid).multiple(true).args(members)], members emptied
    when a flattened field exists (the HACK in gen_augment) *)
Definition struct_group (gid : bytes) (ns : nodes) : group :=
  (group_new gid) <| g_multiple := true |>
                  <| g_args := if has_flatten ns then [] else literal_members ns |>.

Definition set_sub_required (b : bool) (c : cmd) : cmd :=
  c <| c_set := (c_set c) <| s_sub_required := b |> <| s_arg_required_else_help := b |> |>.

(** [args::gen_augment] over the fields ([augment_nodes]), with the group prelude ([augment]);
    [subcommand::gen_augment] over the variants ([augment_variants]). *)
Fixpoint augment_node (ovr : bool) (n : node) (c : cmd) {struct n} : cmd :=
  match n with
  | NArg f => c <| c_args := c_args c ++ [field_arg ovr f] |>
  | NFlatten _ gid body =>
      augment_nodes ovr body (c <| c_groups := c_groups c ++ [struct_group gid body] |>)
  | NSub opt vs =>
      (* args::gen_augment always calls [augment_subcommands], never [.._for_update]: below a
         subcommand field the arguments keep their requiredness in the update command too *)
      let c := augment_variants false vs c in
      let c := if opt then c else set_sub_required true c in
      if ovr then set_sub_required false c else c
  end
with augment_nodes (ovr : bool) (ns : nodes) (c : cmd) {struct ns} : cmd :=
  match ns with
  | NNil => c
  | NCons n t => augment_nodes ovr t (augment_node ovr n c)
  end
with augment_variants (ovr : bool) (vs : variants) (c : cmd) {struct vs} : cmd :=
  match vs with
  | VNil => c
  | VCons cname gid body t =>
      let sc := cmd_new cname in
      let sc := match gid with
                | Some g => augment_nodes ovr body (sc <| c_groups := [struct_group g body] |>)
                | None => sc
                end in
      augment_variants ovr t (c <| c_subs := c_subs c ++ [sc] |>)
  end.

Definition augment (ovr : bool) (gid : bytes) (ns : nodes) (c : cmd) : cmd :=
  augment_nodes ovr ns (c <| c_groups := c_groups c ++ [struct_group gid ns] |>).

(** A [#[derive(Parser)]] struct: command name, group id (the struct's ident), fields. *)
Record dinput := mkDinput { d_name : bytes; d_gid : bytes; d_nodes : nodes }.

(** [CommandFactory::command] / [command_for_update] *)
Definition derive_cmd (d : dinput) : cmd := augment false (d_gid d) (d_nodes d) (cmd_new (d_name d)).
Definition derive_cmd_for_update (d : dinput) : cmd := augment true (d_gid d) (d_nodes d) (cmd_new (d_name d)).

(** ---------------------------------------------------------------- values *)
Inductive dval :=
| DOne (v : sval)
| DUnit
| DOpt (o : option sval)
| DOptOpt (o : option (option sval))
| DVec (l : list sval)
| DOptVec (o : option (list sval))
| DVecVec (l : list (list sval))
| DOptVecVec (o : option (list (list sval)))
| DStruct (fs : list dval)
| DOptStruct (o : option (list dval))
| DEnum (variant : nat) (fs : list dval)
| DOptEnum (o : option (nat * list dval)).

Inductive xres (A : Type) := XOk (a : A) | XErr (k : ekind) | XPanic (site : N).
Arguments XOk {A}. Arguments XErr {A}. Arguments XPanic {A}.
Definition xbind {A B} (r : xres A) (f : A -> xres B) : xres B :=
  match r with XOk a => f a | XErr k => XErr k | XPanic s => XPanic s end.
Notation "'dox' x <- r ; k" := (xbind r (fun x => k)) (at level 200, x pattern, r at level 100, k at level 200).

(** ---------------------------------------------------------------- ArgMatches accessors *)
Definition m_contains (i : id) (m : matches) : bool := fm_contains i (ms_args m).
Definition m_remove (i : id) (m : matches) : matches := Matches (fst (fm_remove i (ms_args m))) (ms_sub m).

Fixpoint map_opt {A B} (f : A -> option B) (l : list A) : option (list B) :=
  match l with
  | [] => Some []
  | a :: t => match f a, map_opt f t with Some b, Some r => Some (b :: r) | _, _ => None end
  end.

(** the typed occurrence groups of an entry; [None]: a raw value outside the type's language
    (cannot happen for matches produced by the command's own parser: C15_extract_total's hypothesis) *)
Definition typed_groups (t : vty) (icase : bool) (ma : marg) : option (list (list sval)) :=
  map_opt (map_opt (parse_scalar t icase)) (m_raw ma).

(** [remove_one::<T>(id)]: absent -> None; else the first value of the flattened groups.
    [remove_many]: the flattened groups.  [remove_occurrences]: the groups.
    Site 1 = [MatchesError::unwrap] on a downcast failure. *)
Definition remove_typed (t : vty) (icase : bool) (i : id) (m : matches)
  : xres (option (list (list sval)) * matches) :=
  match fm_get i (ms_args m) with
  | None => XOk (None, m)
  | Some ma => match typed_groups t icase ma with
               | Some gs => XOk (Some gs, m_remove i m)
               | None => XPanic 1
               end
  end.
Definition remove_one t icase i m : xres (option sval * matches) :=
  dox r <- remove_typed t icase i m;
  XOk (match fst r with Some gs => hd_error (concat gs) | None => None end, snd r).
Definition remove_many t icase i m : xres (option (list sval) * matches) :=
  dox r <- remove_typed t icase i m; XOk (opt_map (@concat sval) (fst r), snd r).
Definition remove_occurrences t icase i m : xres (option (list (list sval)) * matches) :=
  remove_typed t icase i m.

(** ---------------------------------------------------------------- gen_parsers / gen_constructor *)
(** [gen_parsers]: the [field_value] expression *)
Definition field_value (f : field) (m : matches) : xres (dval * matches) :=
  let t := f_t f in let ic := f_icase f in let i := f_id f in
  match f_ty f with
  | TyUnit => XOk (DUnit, m)
  | TyOption => dox r <- remove_one t ic i m; XOk (DOpt (fst r), snd r)
  | TyOptionOption =>
      if m_contains i m then dox r <- remove_one t ic i m; XOk (DOptOpt (Some (fst r)), snd r)
      else XOk (DOptOpt None, m)
  | TyOptionVec =>
      if m_contains i m then dox r <- remove_many t ic i m; XOk (DOptVec (Some (opt_default [] (fst r))), snd r)
      else XOk (DOptVec None, m)
  | TyVec => dox r <- remove_many t ic i m; XOk (DVec (opt_default [] (fst r)), snd r)
  | TyVecVec => dox r <- remove_occurrences t ic i m; XOk (DVecVec (opt_default [] (fst r)), snd r)
  | TyOptionVecVec => dox r <- remove_occurrences t ic i m; XOk (DOptVecVec (fst r), snd r)
  | TyOther =>
      dox r <- remove_one t ic i m;
      match fst r with
      | Some v => XOk (DOne v, snd r)
      | None => XErr EMissingRequiredArgument
      end
  end.

(** [gen_has_subcommand] (no external subcommand, no flattened variants) *)
Fixpoint has_subcommand (vs : variants) (name : bytes) : bool :=
  match vs with
  | VNil => false
  | VCons cname _ _ t => beq cname name || has_subcommand t name
  end.

Definition ms_remove_subcommand (m : matches) : option (bytes * matches) * matches :=
  (ms_sub m, Matches (ms_args m) None).

(** [gen_from_arg_matches] around the variant chain [ev]: [remove_subcommand], else MissingSubcommand *)
Definition sub_from_matches (ev : bytes -> matches -> xres (nat * list dval)) (m : matches)
  : xres (nat * list dval * matches) :=
  match ms_remove_subcommand m with
  | (Some (name, sm), m') => dox r <- ev name sm; XOk (r, m')
  | (None, _) => XErr EMissingSubcommand
  end.
(** [gen_update_from_arg_matches] on the current value (vi, fs): [uv] = the match arms
    [Self::V.. if name == cname] ([Some fs'] = updated in place), else the fall-through arm *)
Definition sub_update (uv : nat -> bytes -> list dval -> matches -> xres (option (list dval)))
           (ev : bytes -> matches -> xres (nat * list dval)) (vi : nat) (fs : list dval) (m : matches)
  : xres (nat * list dval * matches) :=
  match ms_sub m with
  | None => XOk (vi, fs, m)
  | Some (name, sm) =>
      dox same <- uv vi name fs sm;
      match same with
      | Some fs' => XOk (vi, fs', Matches (ms_args m) None)
      | None => sub_from_matches ev m
      end
  end.

(** [gen_constructor] ([extract_node]/[extract_nodes]) and [gen_from_arg_matches]
    ([extract_variants] = the chain of [if name == sub_name && !contains_id("")], counting the
    variant index from [i]). *)
Fixpoint extract_node (n : node) (m : matches) {struct n} : xres (dval * matches) :=
  match n with
  | NArg f => field_value f m
  | NFlatten false _ body =>
      dox r <- extract_nodes body m; XOk (DStruct (fst r), snd r)
  | NFlatten true gid body =>
      if m_contains gid m then dox r <- extract_nodes body m; XOk (DOptStruct (Some (fst r)), snd r)
      else XOk (DOptStruct None, m)
  | NSub opt vs =>
      if opt then
        if match ms_sub m with Some (name, _) => has_subcommand vs name | None => false end
        then dox r <- sub_from_matches (extract_variants vs 0) m; XOk (DOptEnum (Some (fst r)), snd r)
        else XOk (DOptEnum None, m)
      else dox r <- sub_from_matches (extract_variants vs 0) m; XOk (DEnum (fst (fst r)) (snd (fst r)), snd r)
  end
with extract_nodes (ns : nodes) (m : matches) {struct ns} : xres (list dval * matches) :=
  match ns with
  | NNil => XOk ([], m)
  | NCons n t =>
      dox r <- extract_node n m;
      dox r2 <- extract_nodes t (snd r);
      XOk (fst r :: fst r2, snd r2)
  end
with extract_variants (vs : variants) (i : nat) (name : bytes) (sm : matches) {struct vs}
  : xres (nat * list dval) :=
  match vs with
  | VNil => XErr EInvalidSubcommand
  | VCons cname _ body t =>
      if beq name cname && negb (m_contains ext_id sm)
      then dox r <- extract_nodes body sm; XOk (i, fst r)
      else extract_variants t (S i) name sm
  end.

(** [FromArgMatches::from_arg_matches_mut] of the struct *)
Definition extract (d : dinput) (m : matches) : xres (list dval) :=
  dox r <- extract_nodes (d_nodes d) m; XOk (fst r).

(** ---------------------------------------------------------------- gen_updater *)
Fixpoint nth_variant (vs : variants) (i : nat) : option (bytes * nodes) :=
  match vs, i with
  | VNil, _ => None
  | VCons cname _ body _, O => Some (cname, body)
  | VCons _ _ _ t, S k => nth_variant t k
  end.

(** Site 2 = the value handed to [update] does not have the type's shape (ill-typed call; not
    expressible in Rust). *)
Fixpoint update_node (n : node) (v : dval) (m : matches) {struct n} : xres (dval * matches) :=
  match n with
  | NArg f => if m_contains (f_id f) m then field_value f m else XOk (v, m)
  | NFlatten false _ body =>
      match v with
      | DStruct fs => dox r <- update_nodes body fs m; XOk (DStruct (fst r), snd r)
      | _ => XPanic 2
      end
  | NFlatten true _ body =>
      match v with
      | DOptStruct (Some fs) => dox r <- update_nodes body fs m; XOk (DOptStruct (Some (fst r)), snd r)
      | DOptStruct None => dox r <- extract_nodes body m; XOk (DOptStruct (Some (fst r)), snd r)
      | _ => XPanic 2
      end
  | NSub opt vs =>
      let upd := sub_update (update_variants vs) (extract_variants vs 0) in
      match opt, v with
      | false, DEnum vi fs => dox r <- upd vi fs m; XOk (DEnum (fst (fst r)) (snd (fst r)), snd r)
      | true, DOptEnum (Some (vi, fs)) => dox r <- upd vi fs m; XOk (DOptEnum (Some (fst r)), snd r)
      | true, DOptEnum None => dox r <- sub_from_matches (extract_variants vs 0) m; XOk (DOptEnum (Some (fst r)), snd r)
      | _, _ => XPanic 2
      end
  end
with update_nodes (ns : nodes) (vs : list dval) (m : matches) {struct ns} : xres (list dval * matches) :=
  match ns, vs with
  | NNil, [] => XOk ([], m)
  | NCons n t, v :: vt =>
      dox r <- update_node n v m;
      dox r2 <- update_nodes t vt (snd r);
      XOk (fst r :: fst r2, snd r2)
  | _, _ => XPanic 2
  end
(** the match arms [Self::V.. if name == cname]: [Some fs'] when the current variant (index [vi])
    is the named one (its fields are updated in place from the sub-matches, the subcommand is
    removed), [None] when the fall-through arm [s => *s = from_arg_matches_mut(..)] is taken *)
with update_variants (vs : variants) (vi : nat) (name : bytes) (fs : list dval) (sm : matches) {struct vs}
  : xres (option (list dval)) :=
  match vs, vi with
  | VNil, _ => XPanic 2
  | VCons cname _ body _, O =>
      if beq cname name then dox r <- update_nodes body fs sm; XOk (Some (fst r)) else XOk None
  | VCons _ _ _ t, S k => update_variants t k name fs sm
  end.

Definition update (d : dinput) (vs : list dval) (m : matches) : xres (list dval) :=
  dox r <- update_nodes (d_nodes d) vs m; XOk (fst r).

(** a sequence of [update_from_arg_matches] calls *)
Fixpoint update_seq (d : dinput) (vs : list dval) (ms : list matches) : xres (list dval) :=
  match ms with
  | [] => XOk vs
  | m :: t => dox vs' <- update d vs m; update_seq d vs' t
  end.

(** ---------------------------------------------------------------- Parser trait glue *)
(** Every raw value held for an enum-typed field is a name of the enum.  NOT part of the derived parser
    any more (until round 5 [VPString] stood in for [EnumValueParser] inside the parser model and
    [derived_parse] made this check afterwards): the generated argument now carries the real parser
    ([vp_of] = [VPPossible ic (enum_pvs e)]), and [enum_ok_nodes] of the matches of a successful parse is a
    THEOREM ([DeriveEnum.parse_enum_ok]); the predicate stays as the vocabulary of that theorem. *)
Definition entry_ok (t : vty) (ic : bool) (i : id) (m : matches) : bool :=
  match t with
  | TEnum _ => match fm_get i (ms_args m) with
               | Some ma => forallb (forallb (fun s => is_some (parse_scalar t ic s))) (m_raw ma)
               | None => true
               end
  | _ => true
  end.
Fixpoint enum_ok_node (n : node) (m : matches) {struct n} : bool :=
  match n with
  | NArg f => entry_ok (f_t f) (f_icase f) (f_id f) m
  | NFlatten _ _ body => enum_ok_nodes body m
  | NSub _ vs => match ms_sub m with
                 | Some (name, sm) => enum_ok_variants vs name sm
                 | None => true
                 end
  end
with enum_ok_nodes (ns : nodes) (m : matches) {struct ns} : bool :=
  match ns with
  | NNil => true
  | NCons n t => enum_ok_node n m && enum_ok_nodes t m
  end
with enum_ok_variants (vs : variants) (name : bytes) (sm : matches) {struct vs} : bool :=
  match vs with
  | VNil => true
  | VCons cname _ body t => if beq name cname then enum_ok_nodes body sm else enum_ok_variants t name sm
  end.

Inductive presult_d :=
| PValue (vs : list dval)
| PError (k : ekind)           (* a clap::Error from the parser or from extraction *)
| PPanic (site : N)
| PInvalid.                    (* the generated command fails clap's debug assertions *)

Definition of_outcome (o : outcome) (k : matches -> presult_d) : presult_d :=
  match o with
  | OOk m => k m
  | OErr e => PError (e_kind e)
  | OPanicked s => PPanic s
  | OOutOfFuel => PPanic 0
  | OInvalidConfig => PInvalid
  end.
Definition of_xres (r : xres (list dval)) : presult_d :=
  match r with XOk vs => PValue vs | XErr k => PError k | XPanic s => PPanic s end.

(** [Parser::try_parse_from] *)
Definition derived_parse (d : dinput) (argv : list bytes) : presult_d :=
  of_outcome (parse_top (derive_cmd d) argv) (fun m => of_xres (extract d m)).

(** [Parser::try_update_from] *)
Definition derived_update (d : dinput) (vs : list dval) (argv : list bytes) : presult_d :=
  of_outcome (parse_top (derive_cmd_for_update d) argv) (fun m => of_xres (update d vs m)).

(** ---------------------------------------------------------------- canonical printer *)
(** A hand-written inverse of the derived parser (the same function is written in Rust for every
    corpus type): options first as [--long=value] / [-s=value], then the subcommand with its own
    line, or [--] and the positional values. *)
Definition z_to_dec (z : Z) : bytes :=
  match z with
  | Z0 => [48]
  | Zpos p => n_to_dec (Npos p)
  | Zneg p => 45 :: n_to_dec (Npos p)
  end.
(** [None]: the value has no textual form (skipped enum variant) or is not of type [t] *)
Definition print_scalar (t : vty) (v : sval) : option bytes :=
  match t, v with
  | TBool, SvBool b => Some (if b then s_true else s_false)
  | TU8, SvInt z => if ((0 <=? z) && (z <=? 255))%Z then Some (z_to_dec z) else None
  | TI64, SvInt z => if in_i64 z then Some (z_to_dec z) else None
  | TStr, SvStr s => if utf8_valid s then Some s else None
  | TEnum e, SvEnum i => opt_map pv_name (ve_to_possible_value e i)
  | _, _ => None
  end.

Definition flag_tok (k : akind) : bytes :=
  match k with KLong l => [45; 45] ++ l | KShort c => 45 :: encode_utf8 c | KPos => [] end.
(** tokens of one occurrence holding [vals]: (option tokens, positional tokens) *)
Definition occ_toks (k : akind) (vals : list bytes) : list bytes * list bytes :=
  match k with
  | KPos => ([], vals)
  | _ => match vals with
         | [] => ([flag_tok k], [])
         | [v] => ([flag_tok k ++ [61] ++ v], [])
         | _ => (flag_tok k :: vals, [])
         end
  end.
Definition cat2 {A} (a b : list A * list A) := (fst a ++ fst b, snd a ++ snd b).
Definition occs_toks (k : akind) (groups : list (list bytes)) : list bytes * list bytes :=
  fold_right (fun g acc => cat2 (occ_toks k g) acc) ([], []) groups.

(** the occurrence groups (printed values) a field's value stands for; [None] = unprintable.
    [Some None] = the argument is not mentioned at all. *)
Definition ps (t : vty) := print_scalar t.
Definition field_groups (f : field) (v : dval) : option (option (list (list bytes))) :=
  let t := f_t f in
  match f_ty f, v with
  | TyUnit, DUnit => Some None
  | TyOther, DOne x =>
      match field_action f, x with
      | ASetTrue, SvBool b => Some (if b then Some [[]] else None)
      | ACount, SvInt z => if ((0 <=? z) && (z <=? 255))%Z
                           then Some (if (z =? 0)%Z then None else Some (repeat [] (Z.to_nat z))) else None
      | ASet, _ => match ps t x with Some s => Some (Some [[s]]) | None => None end
      | _, _ => None
      end
  | TyOption, DOpt None => Some None
  | TyOption, DOpt (Some x) => match ps t x with Some s => Some (Some [[s]]) | None => None end
  | TyOptionOption, DOptOpt None => Some None
  | TyOptionOption, DOptOpt (Some None) => Some (Some [[]])
  | TyOptionOption, DOptOpt (Some (Some x)) => match ps t x with Some s => Some (Some [[s]]) | None => None end
  | TyVec, DVec [] => Some None
  | TyVec, DVec l =>
      match map_opt (ps t) l with
      | Some ss => Some (Some (if f_is_positional f then [ss] else map (fun s => [s]) ss))
      | None => None end
  | TyOptionVec, DOptVec None => Some None
  | TyOptionVec, DOptVec (Some []) => Some (Some [[]])
  | TyOptionVec, DOptVec (Some l) =>
      match map_opt (ps t) l with
      | Some ss => Some (Some (if f_is_positional f then [ss] else map (fun s => [s]) ss))
      | None => None end
  | TyVecVec, DVecVec [] => Some None
  | TyVecVec, DVecVec l => match map_opt (map_opt (ps t)) l with Some gs => Some (Some gs) | None => None end
  | TyOptionVecVec, DOptVecVec None => Some None
  | TyOptionVecVec, DOptVecVec (Some []) => None            (* no argv yields Some([]) *)
  | TyOptionVecVec, DOptVecVec (Some l) => match map_opt (map_opt (ps t)) l with Some gs => Some (Some gs) | None => None end
  | _, _ => None
  end.

(** what the count action stores for [n] occurrences *)
Definition count_raw (n : nat) : list (list bytes) := [[n_to_dec (N.of_nat n)]].

(** the matches entry of a field: from its occurrence groups when mentioned, else its default *)
Definition field_entry (f : field) (g : option (list (list bytes))) : list (id * marg) :=
  match g with
  | Some groups =>
      let raw := match field_action f with
                 | ASetTrue => [[s_true]]
                 | ACount => count_raw (length groups)
                 | _ => groups end in
      [(f_id f, mkMarg (Some SCmdLine) [] raw (f_icase f) false)]
  | None =>
      match f_default f, action_default_value (field_action f) with
      | Some d, _ => [(f_id f, mkMarg (Some SDefault) [] [[d]] (f_icase f) false)]
      | None, Some d => [(f_id f, mkMarg (Some SDefault) [] [[d]] (f_icase f) false)]
      | None, None => []
      end
  end.
Definition is_explicit (e : id * marg) := match m_source (snd e) with Some SCmdLine => true | _ => false end.
(** the entry of a struct's group: present when a literal member is explicitly present *)
Definition group_entry (gid : bytes) (ns : nodes) (es : list (id * marg)) : list (id * marg) :=
  let members := (struct_group gid ns).(g_args) in
  let present := filter (fun e => is_explicit e && mem_id (fst e) members) es in
  match present with
  | [] => []
  | _ => [(gid, mkMarg (Some SCmdLine) [] (map (fun e => [fst e]) present) false true)]
  end.

Record printed := mkPrinted { p_opts : list bytes; p_pos : list bytes; p_sub : list bytes;
                              p_entries : list (id * marg); p_msub : option (bytes * matches) }.
#[export] Instance eta_printed : Settable _ := settable! mkPrinted <p_opts; p_pos; p_sub; p_entries; p_msub>.
Definition printed_nil := mkPrinted [] [] [] [] None.
Definition printed_cat (a b : printed) : printed :=
  mkPrinted (p_opts a ++ p_opts b) (p_pos a ++ p_pos b) (p_sub a ++ p_sub b) (p_entries a ++ p_entries b)
            (match p_msub a with Some s => Some s | None => p_msub b end).
Definition printed_argv (p : printed) : list bytes :=
  p_opts p ++ (match p_pos p with [] => [] | l => [45; 45] :: l end) ++ p_sub p.

(** [print_*]: the canonical argv pieces and, alongside, the matches that parsing them yields
    ([p_entries]/[p_msub]); [None] when the value is not of the type or has no argv. *)
Fixpoint print_node (n : node) (v : dval) {struct n} : option printed :=
  match n with
  | NArg f =>
      match field_groups f v with
      | None => None
      | Some g =>
          let toks := match g with Some groups => occs_toks (f_kind f) groups | None => ([], []) end in
          Some (mkPrinted (fst toks) (snd toks) [] (field_entry f g) None)
      end
  | NFlatten false gid body =>
      match v with
      | DStruct fs =>
          match print_nodes body fs with
          | Some p => Some (p <| p_entries := p_entries p ++ group_entry gid body (p_entries p) |>)
          | None => None end
      | _ => None
      end
  | NFlatten true gid body =>
      match v with
      | DOptStruct (Some fs) =>
          match print_nodes body fs with
          | Some p => Some (p <| p_entries := p_entries p ++ group_entry gid body (p_entries p) |>)
          | None => None end
      | DOptStruct None => absent_nodes body
      | _ => None
      end
  | NSub opt vs =>
      match opt, v with
      | false, DEnum vi fs | true, DOptEnum (Some (vi, fs)) => print_variants vs vi fs
      | true, DOptEnum None => Some printed_nil
      | _, _ => None
      end
  end
with print_nodes (ns : nodes) (vs : list dval) {struct ns} : option printed :=
  match ns, vs with
  | NNil, [] => Some printed_nil
  | NCons n t, v :: vt =>
      match print_node n v, print_nodes t vt with
      | Some a, Some b => Some (printed_cat a b)
      | _, _ => None
      end
  | _, _ => None
  end
with print_variants (vs : variants) (vi : nat) (fs : list dval) {struct vs} : option printed :=
  match vs, vi with
  | VNil, _ => None
  | VCons cname gid body _, O =>
      match print_nodes body fs with
      | Some p =>
          let es := p_entries p ++ match gid with Some g => group_entry g body (p_entries p) | None => [] end in
          Some (mkPrinted [] [] (cname :: printed_argv p) [] (Some (cname, Matches es (p_msub p))))
      | None => None
      end
  | VCons _ _ _ t, S k => print_variants t k fs
  end
(** the entries present when nothing of a struct is mentioned (defaults only) *)
with absent_nodes (ns : nodes) {struct ns} : option printed :=
  match ns with
  | NNil => Some printed_nil
  | NCons n t =>
      match absent_node n, absent_nodes t with
      | Some a, Some b => Some (printed_cat a b)
      | _, _ => None
      end
  end
with absent_node (n : node) {struct n} : option printed :=
  match n with
  | NArg f => Some (mkPrinted [] [] [] (field_entry f None) None)
  | NFlatten _ _ body => absent_nodes body
  | NSub _ _ => Some printed_nil
  end.

Definition print_top (d : dinput) (vs : list dval) : option printed :=
  match print_nodes (d_nodes d) vs with
  | Some p => Some (p <| p_entries := p_entries p ++ group_entry (d_gid d) (d_nodes d) (p_entries p) |>)
  | None => None
  end.
(** [print]: the canonical argv (after the binary name) *)
Definition print (d : dinput) (vs : list dval) : option (list bytes) := opt_map printed_argv (print_top d vs).
(** [matches_of_print]: the matches parsing [print d vs] yields (indices left out) *)
Definition matches_of_print (d : dinput) (vs : list dval) : option matches :=
  opt_map (fun p => Matches (p_entries p) (p_msub p)) (print_top d vs).

(** argv-level side conditions of the printer (what makes [print d vs] parse back to
    [matches_of_print d vs]; checked executably by the model driver on every [dround] case,
    not part of the matches-level theorem): *)
Definition starts_dash (s : bytes) := match s with 45 :: _ => true | _ => false end.
