(** Property C15: the decimal printer and [str::parse::<i64>] are inverse on the i64 range -- the scalar hypothesis [srt]
    of the round trip for [i64] fields (round 1 left it to the [dround] stream). *)
From ClapModel Require Import Base.Bytes Base.Machine Base.Utf8.
From ClapModel Require Import Parse.Cmd Parse.Matcher Parse.Errors Parse.Parser.
From ClapModel Require Import Derive.DeriveModel Derive.DeriveProofs.
From Coq Require Import ZArith List Bool Lia.
Import ListNotations.
Open Scope N_scope.

Lemma digits_val_app : forall l1 l2 a,
  digits_val (l1 ++ l2) a = match digits_val l1 a with Some b => digits_val l2 b | None => None end.
Proof.
  induction l1 as [|c l1 IH]; intros l2 a; [reflexivity|]. cbn [app digits_val].
  destruct (is_digit c); [apply IH|reflexivity].
Qed.

Definition dig (c : N) : Prop := 48 <= c /\ c <= 57.
Lemma dig_is_digit c : dig c -> is_digit c = true.
Proof. intros [A B]. unfold is_digit. apply andb_true_intro. split; apply N.leb_le; assumption. Qed.

(** the digits [n_to_dec_fuel] puts in front of the accumulator, read back by [digits_val] *)
Lemma n_to_dec_fuel_spec : forall f n acc, n < 10 ^ N.of_nat (S f) ->
  exists ds, n_to_dec_fuel (S f) n acc = ds ++ acc /\ ds <> [] /\ Forall dig ds
             /\ forall a, digits_val ds a = Some (a * 10 ^ Z.of_nat (length ds) + Z.of_N n)%Z.
Proof.
  induction f as [|f IH]; intros n acc Hn.
  - (* one digit *)
    change (10 ^ N.of_nat 1) with 10 in Hn. cbn [n_to_dec_fuel].
    assert (E : n / 10 = 0) by (apply N.div_small; exact Hn). rewrite E. cbn [N.eqb].
    rewrite (N.mod_small n 10 Hn).
    exists [48 + n]. split; [reflexivity|]. split; [discriminate|]. split; [constructor; [split; lia|constructor]|].
    intros a. cbn [digits_val length]. rewrite (dig_is_digit (48 + n)) by (split; lia).
    f_equal. replace (48 + n - 48) with n by lia. change (10 ^ Z.of_nat 1)%Z with 10%Z. reflexivity.
  - change (n_to_dec_fuel (S (S f)) n acc) with
      (if n / 10 =? 0 then (48 + n mod 10) :: acc else n_to_dec_fuel (S f) (n / 10) ((48 + n mod 10) :: acc)).
    assert (Hm : n mod 10 < 10) by (apply N.mod_lt; discriminate).
    destruct (n / 10 =? 0) eqn:E.
    + apply N.eqb_eq in E. assert (Hs : n < 10) by (apply N.div_small_iff in E; [exact E|discriminate]).
      rewrite (N.mod_small n 10 Hs).
      exists [48 + n]. split; [reflexivity|]. split; [discriminate|]. split; [constructor; [split; lia|constructor]|].
      intros a. cbn [digits_val length]. rewrite (dig_is_digit (48 + n)) by (split; lia).
      f_equal. replace (48 + n - 48) with n by lia. change (10 ^ Z.of_nat 1)%Z with 10%Z. reflexivity.
    + assert (Hq : n / 10 < 10 ^ N.of_nat (S f)).
      { apply N.div_lt_upper_bound; [discriminate|]. replace (10 * 10 ^ N.of_nat (S f)) with (10 ^ N.of_nat (S (S f))); [exact Hn|].
        rewrite (Nat2N.inj_succ (S f)), N.pow_succ_r'. reflexivity. }
      pose proof (N.div_mod n 10 ltac:(discriminate)) as Hdm.
      remember (n mod 10) as r eqn:Er. remember (n / 10) as q eqn:Eq.
      assert (D : dig (48 + r)) by (split; lia).
      destruct (IH q ((48 + r) :: acc) Hq) as [ds [Eds [Hne [Hd Hv]]]].
      exists (ds ++ [48 + r]). rewrite Eds, <- app_assoc. split; [reflexivity|].
      split; [destruct ds; discriminate|]. split; [apply Forall_app; split; [exact Hd|constructor; [exact D|constructor]]|].
      intros a. rewrite digits_val_app, Hv. cbn [digits_val]. rewrite (dig_is_digit (48 + r) D).
      f_equal. rewrite app_length. cbn [length]. rewrite Nat.add_1_r, Nat2Z.inj_succ, Z.pow_succ_r by lia.
      replace (48 + r - 48) with r by lia.
      rewrite Hdm, N2Z.inj_add, N2Z.inj_mul. change (Z.of_N 10) with 10%Z. ring.
Qed.

Lemma n_to_dec_spec n : n < 10 ^ 40 ->
  exists c ds, n_to_dec n = c :: ds /\ dig c /\ Forall dig ds /\ digits_val (c :: ds) 0%Z = Some (Z.of_N n).
Proof.
  intros Hn. unfold n_to_dec. destruct (n_to_dec_fuel_spec 39 n [] Hn) as [ds [E [Hne [Hd Hv]]]].
  rewrite app_nil_r in E. destruct ds as [|c ds]; [contradiction Hne; reflexivity|].
  exists c, ds. inversion Hd; subst. split; [exact E|]. split; [assumption|]. split; [assumption|].
  rewrite Hv. f_equal; try lia.
Qed.

Lemma dig_ascii c : dig c -> c < 128. Proof. intros [_ H]. lia. Qed.

Lemma parse_i64_digit c ds v : dig c -> digits_val (c :: ds) 0%Z = Some v ->
  parse_i64 (c :: ds) = if in_i64 v then Some v else None.
Proof.
  intros [A B] Hv.
  assert (Hc : c = 48 \/ c = 49 \/ c = 50 \/ c = 51 \/ c = 52 \/ c = 53 \/ c = 54 \/ c = 55 \/ c = 56 \/ c = 57) by lia.
  unfold parse_i64.
  destruct Hc as [->|[->|[->|[->|[->|[->|[->|[->|[->| ->]]]]]]]]]; cbv beta iota zeta; rewrite Hv; reflexivity.
Qed.
Lemma parse_i64_minus ds v : ds <> [] -> digits_val ds 0%Z = Some v ->
  parse_i64 (45 :: ds) = if in_i64 (- v) then Some (- v)%Z else None.
Proof. intros Hne Hv. unfold parse_i64. cbv beta iota zeta. destruct ds; [contradiction Hne; reflexivity|]. rewrite Hv. reflexivity. Qed.

Theorem parse_i64_print z : in_i64 z = true -> parse_i64 (z_to_dec z) = Some z /\ utf8_valid (z_to_dec z) = true.
Proof.
  intros Hr. unfold in_i64 in Hr. apply andb_prop in Hr. destruct Hr as [R1 R2]. apply Z.leb_le in R1, R2.
  unfold i64_min in R1. unfold i64_max in R2.
  destruct z as [|p|p]; cbn [z_to_dec].
  - split; reflexivity.
  - assert (Hn : N.pos p < 10 ^ 40).
    { apply N2Z.inj_lt. rewrite N2Z.inj_pos. change (Z.of_N (10 ^ 40)) with (10 ^ 40)%Z. lia. }
    destruct (n_to_dec_spec (N.pos p) Hn) as [c [ds [E [Hc [Hd Hv]]]]]. rewrite E. split.
    + rewrite (parse_i64_digit c ds _ Hc Hv). cbn [Z.of_N]. unfold in_i64, i64_min, i64_max.
      replace ((-9223372036854775808 <=? Z.pos p) && (Z.pos p <=? 9223372036854775807))%Z with true; [reflexivity|].
      symmetry. apply andb_true_intro. split; apply Z.leb_le; lia.
    + apply ascii_valid. intros b [<-|Hb]; [apply dig_ascii; exact Hc|]. rewrite Forall_forall in Hd. apply dig_ascii. apply Hd. exact Hb.
  - assert (Hn : N.pos p < 10 ^ 40).
    { apply N2Z.inj_lt. rewrite N2Z.inj_pos. change (Z.of_N (10 ^ 40)) with (10 ^ 40)%Z. lia. }
    destruct (n_to_dec_spec (N.pos p) Hn) as [c [ds [E [Hc [Hd Hv]]]]]. rewrite E. split.
    + rewrite (parse_i64_minus (c :: ds) _ ltac:(discriminate) Hv). cbn [Z.of_N Z.opp]. unfold in_i64, i64_min, i64_max.
      replace ((-9223372036854775808 <=? Z.neg p) && (Z.neg p <=? 9223372036854775807))%Z with true; [reflexivity|].
      symmetry. apply andb_true_intro. split; apply Z.leb_le; lia.
    + apply ascii_valid. intros b [<-|[<-|Hb]]; [lia|apply dig_ascii; exact Hc|].
      rewrite Forall_forall in Hd. apply dig_ascii. apply Hd. exact Hb.
Qed.

(** the scalar hypothesis for i64 *)
Theorem srt_i64 ic x : srt TI64 ic x.
Proof.
  intros s. destruct x; cbn [print_scalar]; try discriminate.
  destruct (in_i64 z) eqn:R; [|discriminate]. intros H; inversion H; subst.
  destruct (parse_i64_print z R) as [P U]. cbn [parse_scalar]. unfold parse_int_in. rewrite U, P. cbn [negb].
  unfold in_i64 in R. unfold i64_lo, i64_hi. rewrite R. reflexivity.
Qed.

(** all scalar types *)
Theorem scalars_roundtrip_all :
  (forall ic x, srt TBool ic x) /\ (forall ic x, srt TStr ic x) /\ (forall ic x, srt TU8 ic x) /\ (forall ic x, srt TI64 ic x)
  /\ (forall e ic x, names_disjoint ic e -> Forall (fun v => utf8_valid (Value.PossibleValues.pv_name (vv_pv v)) = true) e -> srt (TEnum e) ic x).
Proof.
  destruct scalars_roundtrip as (A & B & C & D). repeat split; [exact A|exact B|exact C|apply srt_i64|exact D].
Qed.

(** boundary instances, computed (cross-check of the statement) *)
Example dec_min : z_to_dec i64_min = [45;57;50;50;51;51;55;50;48;51;54;56;53;52;55;55;53;56;48;56] /\ parse_i64 (z_to_dec i64_min) = Some i64_min.
Proof. split; vm_compute; reflexivity. Qed.
Example dec_max : parse_i64 (z_to_dec i64_max) = Some i64_max /\ parse_i64 (z_to_dec (i64_max + 1)) = None.
Proof. split; vm_compute; reflexivity. Qed.
