(** Property C15, round 5 (2): [bool] versus [Option<bool>] / [Option<Option<bool>>].

    [item.rs default_action] looks at the FIELD type: only a field declared [bool] gets [ArgAction::SetTrue] (a flag with
    the implied default "false"); [Option<bool>] and [Option<Option<bool>>] get [ArgAction::Set] with the bool value parser
    and NO default: absent => [None], [--flag true] => [Some(true)].  (A seeded change decided on the inner type and made
    them flags.)  This file: the classification, the generated argument, and the round trip [None <-> absent]. *)
From ClapModel Require Import Base.Bytes Base.Machine Base.Utf8.
From ClapModel Require Import Parse.Cmd Parse.Build Parse.Valid Parse.Matcher Parse.Errors Parse.Validator Parse.Parser.
From ClapModel Require Import ParseProofs.Unparse ParseProofs.UnparseTree ParseProofs.Actions.
From ClapModel Require Import ParseProofs.KindSound ParseProofs.TypedInv.
From ClapModel Require Import Derive.DeriveModel Derive.DeriveProofs Derive.DeriveCmd Derive.DeriveArgs Derive.DeriveParse
                              Derive.DeriveAccept Derive.DerivePost Derive.DeriveParseEx Derive.DeriveFlat Derive.DeriveTotal
                              Derive.DeriveAbsent.
From Coq Require Import ZArith List Bool Lia.
Import ListNotations.
Open Scope N_scope.

(** * 1. [default_action]: SetTrue exactly for a field whose declared type is the simple path [bool] *)
Theorem default_action_settrue_iff t elem : default_action t elem = ASetTrue <-> t = SynPath /\ elem = TBool.
Proof.
  split.
  - unfold default_action, from_syn_ty.
    destruct t as [|s|s|]; cbn [get_vec_ty is_generic_vec is_generic_option].
    + discriminate.
    + destruct s as [|s2|s2|]; cbn [get_vec_ty is_generic_vec is_generic_option]; try discriminate.
      destruct (is_generic_vec s2); discriminate.
    + destruct (is_generic_vec s); discriminate.
    + destruct elem; try discriminate. auto.
  - intros [-> ->]. reflexivity.
Qed.

Theorem default_action_option_bool :
  default_action SynPath TBool = ASetTrue
  /\ default_action (SynOption SynPath) TBool = ASet
  /\ default_action (SynOption (SynOption SynPath)) TBool = ASet
  /\ default_action (SynVec SynPath) TBool = AAppend
  /\ default_action (SynOption (SynVec SynPath)) TBool = AAppend.
Proof. repeat split; reflexivity. Qed.

(** * 2. the generated argument *)
(** a field declared [x: Option<bool>] ([oo = false]) or [x: Option<Option<bool>>] ([oo = true]) with no attribute but its name *)
Definition optbool_field (f : field) : Prop :=
  f_t f = TBool /\ (f_syn f = SynOption SynPath \/ f_syn f = SynOption (SynOption SynPath))
  /\ f_action f = None /\ f_default f = None /\ f_required f = None /\ f_num f = None.
(** a field declared [x: bool] with no attribute but its name *)
Definition bool_field (f : field) : Prop :=
  f_t f = TBool /\ f_syn f = SynPath /\ f_action f = None /\ f_default f = None /\ f_required f = None /\ f_num f = None.

Lemma optbool_facts f : optbool_field f ->
  (f_ty f = TyOption \/ f_ty f = TyOptionOption)
  /\ field_action f = ASet
  /\ bf_num f = (match f_ty f with TyOptionOption => r_opt | _ => r_single end)
  /\ field_required f = false
  /\ bf_default f = [].
Proof.
  intros (Et & Hs & Ha & Hd & Hr & Hn).
  assert (Hact : field_action f = ASet).
  { unfold field_action. rewrite Ha. destruct Hs as [-> | ->]; reflexivity. }
  assert (Hty : f_ty f = TyOption \/ f_ty f = TyOptionOption).
  { unfold f_ty. destruct Hs as [-> | ->]; [left|right]; reflexivity. }
  split; [exact Hty|]. split; [exact Hact|]. split; [|split].
  - unfold bf_num, field_num. rewrite Hn, Hact. destruct Hty as [-> | ->]; reflexivity.
  - unfold field_required. rewrite Hr. destruct Hty as [-> | ->]; reflexivity.
  - unfold bf_default. rewrite Hd, Hact. reflexivity.
Qed.

(** [Option<bool>] / [Option<Option<bool>>]: action Set, the bool value parser, one value (resp. 0..=1), not required and --
    the point -- NO default: when the line does not mention the argument the matches hold no entry for it *)
Theorem optbool_argument f : optbool_field f ->
  a_get_action (bf f) = ASet
  /\ a_vp (bf f) = Some VPBool
  /\ a_num (bf f) = Some (match f_ty f with TyOptionOption => r_opt | _ => r_single end)
  /\ a_required (bf f) = false
  /\ a_default (bf f) = [].
Proof.
  intros H. destruct (optbool_facts f H) as (Hty & Hact & Hnum & Hreq & Hdef).
  destruct H as (Et & _).
  destruct (bf_frame f) as (_ & _ & _ & _ & _ & _ & _ & _ & _ & _ & B11 & _).
  split; [rewrite bf_action; exact Hact|]. split; [|split; [|split]].
  - rewrite bf_vp_eq. unfold field_vp. rewrite Hact, Et. destruct Hty as [-> | ->]; reflexivity.
  - rewrite bf_num_eq, Hnum. reflexivity.
  - rewrite B11. exact Hreq.
  - rewrite bf_default_eq. exact Hdef.
Qed.

(** [bool]: a flag -- SetTrue, no value, and the implied default "false" (present in the matches of EVERY parse) *)
Theorem bool_argument f : bool_field f ->
  a_get_action (bf f) = ASetTrue
  /\ a_vp (bf f) = Some VPBool
  /\ a_num (bf f) = Some r_empty
  /\ a_default (bf f) = [s_false].
Proof.
  intros (Et & Hs & Ha & Hd & Hr & Hn).
  assert (Hact : field_action f = ASetTrue) by (unfold field_action; rewrite Ha, Hs, Et; reflexivity).
  assert (Hty : f_ty f = TyOther) by (unfold f_ty; rewrite Hs; reflexivity).
  split; [rewrite bf_action; exact Hact|]. split; [|split].
  - rewrite bf_vp_eq. unfold field_vp. rewrite Hact, Et, Hty. reflexivity.
  - rewrite bf_num_eq. unfold bf_num, field_num. rewrite Hn, Hact, Hty. reflexivity.
  - rewrite bf_default_eq. unfold bf_default. rewrite Hd, Hact. reflexivity.
Qed.

(** * 3. the round trip: [None] <-> the argument is absent from the canonical line; [Some(b)] <-> [--x=b] *)
(** what the printer writes *)
Theorem optbool_print f : optbool_field f -> f_ty f = TyOption ->
  field_groups f (DOpt None) = Some None
  /\ (forall b, field_groups f (DOpt (Some (SvBool b))) = Some (Some [[if b then s_true else s_false]])).
Proof.
  intros (Et & _) Hty. unfold field_groups. rewrite Hty, Et. split; [reflexivity|]. intros b. reflexivity.
Qed.
Theorem optoptbool_print f : optbool_field f -> f_ty f = TyOptionOption ->
  field_groups f (DOptOpt None) = Some None
  /\ field_groups f (DOptOpt (Some None)) = Some (Some [[]])
  /\ (forall b, field_groups f (DOptOpt (Some (Some (SvBool b)))) = Some (Some [[if b then s_true else s_false]])).
Proof.
  intros (Et & _) Hty. unfold field_groups. rewrite Hty, Et. split; [reflexivity|]. split; [reflexivity|]. intros b. reflexivity.
Qed.

(** what extraction reads: [None] exactly when the matches hold no entry (or an entry without value) *)
Theorem optbool_extract_absent f m : f_ty f = TyOption ->
  fm_get (f_id f) (ms_args m) = None -> field_value f m = XOk (DOpt None, m).
Proof.
  intros Hty G. unfold field_value. rewrite Hty. unfold remove_one, remove_typed. rewrite G. reflexivity.
Qed.

Lemma optbool_takes_ok f : optbool_field f -> takes_ok f.
Proof.
  intros H. destruct (optbool_facts f H) as (Hty & Hact & Hnum & _).
  unfold takes_ok, takes. rewrite bf_takes, Hnum, Hact. destruct Hty as [-> | ->]; reflexivity.
Qed.
Lemma optbool_field_ok f : optbool_field f -> field_ok f.
Proof.
  intros H. destruct (optbool_facts f H) as (Hty & _). destruct H as (_ & _ & Ha & Hd & _).
  unfold field_ok. destruct Hty as [-> | ->]; auto.
Qed.
Lemma optbool_fits f v : optbool_field f -> fits f v.
Proof.
  intros H. destruct (optbool_facts f H) as (Hty & Hact & Hnum & _). destruct H as (Et & _).
  unfold fits. destruct (field_groups f v) as [[gs|]|] eqn:G; try exact I.
  rewrite Hact. split; [exact I|]. rewrite Hnum.
  unfold field_groups in G. rewrite Et in G. destruct Hty as [Hty | Hty]; rewrite Hty in G |- *.
  - destruct v as [| |o| | | | | | | | |]; try discriminate G. destruct o as [x|]; [|discriminate G].
    destruct (ps TBool x); [|discriminate G]. inversion G. reflexivity.
  - destruct v as [| | |o| | | | | | | |]; try discriminate G. destruct o as [[x|]|]; [| |discriminate G].
    + destruct (ps TBool x); [|discriminate G]. inversion G. reflexivity.
    + inversion G. reflexivity.
Qed.

Lemma optbool_nodes : forall ns vs, fields_only ns = true -> Forall optbool_field (fields_of ns) ->
  ok_nodes ns vs /\ fits_all ns vs /\ required_mentioned ns vs.
Proof.
  induction ns as [|n t IH]; intros vs Hfo Hall.
  - split; [exact I|]. split; [exact I|]. intros f v [].
  - destruct n as [f| |]; cbn [fields_only] in Hfo; try discriminate Hfo.
    cbn [fields_of] in Hall. inversion Hall as [|? ? Hf Hall']; subst.
    destruct vs as [|v vt].
    + split; [exact I|]. split; [exact I|]. intros f0 v0 [].
    + destruct (IH vt Hfo Hall') as (I1 & I2 & I3). split; [|split].
      * cbn [ok_nodes ok_node]. split; [|exact I1]. split; [apply optbool_field_ok; exact Hf|].
        destruct Hf as (Et & _). rewrite Et. apply Forall_forall. intros x _. apply srt_bool.
      * cbn [fits_all]. split; [apply optbool_fits; exact Hf|exact I2].
      * intros f0 v0 Hat Hr. cbn [at_node] in Hat. destruct Hat as [[-> ->]|Hat]; [|apply (I3 f0 v0 Hat Hr)].
        destruct (optbool_facts f0 Hf) as (_ & _ & _ & Hreq & _). rewrite Hreq in Hr. discriminate Hr.
Qed.

(** ROUND TRIP for structs of [Option<bool>] / [Option<Option<bool>>] fields, as an equality through the parser model, with NO
    hypothesis on the value: [None] prints to nothing and parses back to [None] (no default is stored for such an argument);
    [Some(b)] prints to [--x=true|false] and parses back; [Some(None)] of an [Option<Option<bool>>] prints to a bare [--x] *)
Theorem roundtrip_parse_optbool d bin vs argv :
  opt_struct d -> Forall optbool_field (fields_of (d_nodes d)) ->
  valid (UnparseTree.with_bin (derive_cmd d) bin) = true -> print d vs = Some argv ->
  derived_parse d (bin :: argv) = PValue vs.
Proof.
  intros Hs Hob Hv Hp. pose proof Hs as (Hfo & _).
  destruct (optbool_nodes (d_nodes d) vs Hfo Hob) as (Hok & Hfit & Hrm).
  apply (roundtrip_parse_class d bin vs argv Hs); try assumption.
  eapply Forall_impl; [|exact Hob]. intros f Hf. apply optbool_takes_ok. exact Hf.
Qed.

Module OptBoolEx.
Definition fa : field := mkField [97] (SynOption SynPath) TBool (KLong [97;97]) None None None None None false.
Definition fb : field := mkField [98] (SynOption SynPath) TBool (KLong [98;98]) None None None None None false.
Definition fc : field := mkField [99] (SynOption (SynOption SynPath)) TBool (KLong [99;99]) None None None None None false.
Definition fd : field := mkField [100] (SynOption (SynOption SynPath)) TBool (KShort 100) None None None None None false.
Definition ns : nodes := NCons (NArg fa) (NCons (NArg fb) (NCons (NArg fc) (NCons (NArg fd) NNil))).
Definition d : dinput := mkDinput b_prog [83] ns.
(** { a: None, b: Some(false), c: Some(None), d: Some(Some(true)) } = [--bb=false --cc -d=true] *)
Definition v : list dval := [DOpt None; DOpt (Some (SvBool false)); DOptOpt (Some None); DOptOpt (Some (Some (SvBool true)))].
Definition argv : list bytes := [[45;45;98;98;61] ++ s_false; [45;45;99;99]; [45;100;61] ++ s_true].
Definition v0 : list dval := [DOpt None; DOpt None; DOptOpt None; DOptOpt None].

Lemma ex_print : print d v = Some argv /\ print d v0 = Some []. Proof. split; vm_compute; reflexivity. Qed.
Lemma ex_struct : opt_struct d.
Proof.
  split; [reflexivity|]. split; [|split].
  - repeat constructor; vm_compute; reflexivity.
  - cbn. repeat constructor; cbn; intuition discriminate.
  - cbn. repeat constructor; cbn; intuition discriminate.
Qed.
Lemma ex_fields : Forall optbool_field (fields_of (d_nodes d)).
Proof. cbn [d_nodes d ns fields_of]. repeat (apply Forall_cons; [unfold optbool_field; cbn; intuition reflexivity|]). apply Forall_nil. Qed.
Lemma ex_valid : valid (UnparseTree.with_bin (derive_cmd d) b_prog) = true. Proof. vm_compute. reflexivity. Qed.
Theorem ex_roundtrip : derived_parse d (b_prog :: argv) = PValue v /\ derived_parse d [b_prog] = PValue v0.
Proof.
  destruct ex_print as [P1 P2]. split.
  - exact (roundtrip_parse_optbool d b_prog v argv ex_struct ex_fields ex_valid P1).
  - exact (roundtrip_parse_optbool d b_prog v0 [] ex_struct ex_fields ex_valid P2).
Qed.
(** cross-check by computation; and what the seeded change would have made of it: as a FLAG, [--aa] alone would be accepted
    -- here it is a missing value *)
Lemma ex_computed : derived_parse d (b_prog :: argv) = PValue v
  /\ derived_parse d [b_prog; [45;45;97;97]] = PError EInvalidValue
  /\ derived_parse d [b_prog; [45;45;97;97]; s_true] = PValue [DOpt (Some (SvBool true)); DOpt None; DOptOpt None; DOptOpt None].
Proof. repeat split; vm_compute; reflexivity. Qed.

(** ALL-ARGV side ([DeriveAbsent.unoccurring_option_is_none]): on [prog --bb false] (separated value: not the printer's
    spelling) no token names the [Option<bool>] field [a]; it is [None] in the parsed value *)
Definition toks : list bytes := [[45;45;98;98]; s_false].
Definition v2 : list dval := [DOpt None; DOpt (Some (SvBool false)); DOptOpt None; DOptOpt None].
Local Notation c := (built d b_prog).
Definition aa : arg := nth 0 (c_args c) help_arg.
Lemma some_inj {A} (x y : A) : Some x = Some y -> x = y.
Proof. intros H. inversion H. reflexivity. Qed.
Lemma f_app : assert_app c = true. Proof. vm_compute. reflexivity. Qed.
Lemma f_find : find_arg c (f_id fa) = Some aa. Proof. vm_compute. reflexivity. Qed.
Lemma f_long : get_long c [98;98] <> Some aa. Proof. vm_compute. discriminate. Qed.
Lemma f_infer : is_set s_infer_long c = false. Proof. vm_compute. reflexivity. Qed.
Lemma f_index : a_index aa = None. Proof. vm_compute. reflexivity. Qed.
Lemma ex_unnamed : forall a, In a (c_args c) -> a_id a = f_id fa -> ~ occurs c toks a.
Proof.
  intros a Ha Hid. pose proof (TypedInv.assert_app_W3 c f_app a Ha) as W. rewrite Hid, f_find in W.
  apply some_inj in W. subst a. clear Ha Hid. intros [tok [Hin Hn]].
  destruct Hin as [<-|[<-|[]]]; destruct Hn as [[f [ok [v [Hl Hs]]]]|[[r [Hr Hs]]|Hi]];
    try (vm_compute in Hl; discriminate Hl); try (vm_compute in Hr; discriminate Hr); try (apply Hi; exact f_index).
  vm_compute in Hl. inversion Hl; subst f ok v. destruct Hs as [Hg|[Hinf _]].
  - exact (f_long Hg).
  - rewrite f_infer in Hinf. discriminate Hinf.
Qed.
Lemma ex_line :
  flat_nodes (d_nodes d) = true /\ In fa (leaves (d_nodes d)) /\ f_ty fa = TyOption /\ bf_default fa = []
  /\ derived_parse d (b_prog :: toks) = PValue v2
  /\ field_at (d_nodes d) v2 (f_id fa) = Some (DOpt None).
Proof. split; [reflexivity|]. split; [left; reflexivity|]. repeat split; vm_compute; reflexivity. Qed.
(** by the theorem *)
Theorem ex_absent_none : forall x, field_at (d_nodes d) v2 (f_id fa) = Some x -> x = DOpt None.
Proof.
  destruct ex_line as (H1 & H2 & H3 & H4 & H5 & _).
  exact (unoccurring_option_is_none d b_prog toks v2 fa H1 H2 H3 H4 ex_valid ex_unnamed H5).
Qed.
End OptBoolEx.
