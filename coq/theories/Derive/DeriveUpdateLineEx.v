(** Property C15: non-vacuity of [update_unoccurring_untouched] -- the struct of DeriveParseEx.v, the line
    [prog --vv -x z] (a separated value: not the printer's spelling); no token names the [Option<u8>] field [oo]. *)
From ClapModel Require Import Base.Bytes Base.Machine Base.Utf8.
From ClapModel Require Import Parse.Cmd Parse.Build Parse.Valid Parse.Matcher Parse.Errors Parse.Validator Parse.Parser.
From ClapModel Require Import ParseProofs.KindSound ParseProofs.TypedInv ParseProofs.Unparse ParseProofs.UnparseTree.
From ClapModel Require Import Derive.DeriveModel Derive.DeriveProofs Derive.DeriveCmd Derive.DeriveArgs Derive.DeriveParse
                              Derive.DeriveUpdate Derive.DeriveParseEx Derive.DeriveFlat Derive.DeriveTotal Derive.DeriveTotalEx Derive.DeriveUpdateLine.
From Coq Require Import ZArith List Bool Lia.
Import ListNotations.
Open Scope N_scope.

Lemma some_inj {A} (x y : A) : Some x = Some y -> x = y.
Proof. intros H. inversion H. reflexivity. Qed.

Module UpdateLineEx.
Definition toks : list bytes := [[45;45;118;118]; [45;120]; [122]].
Definition v1 : list dval := [DOne (SvBool true); DOpt (Some (SvInt 7)); DVec [SvStr [122]]; DOne (SvInt 0)].

Local Notation cu := (builtu ParseEx.d b_prog).
Definition ao : arg := nth 1 (c_args cu) help_arg.

(** small computed facts (each checked by the VM); the main proof below never converts the built command *)
Lemma f_app : assert_app cu = true. Proof. vm_compute. reflexivity. Qed.
Lemma f_find : find_arg cu (f_id ParseEx.fo) = Some ao. Proof. vm_compute. reflexivity. Qed.
Lemma f_only : forall a, In a (c_args cu) -> a_id a = (f_id ParseEx.fo) -> a = ao.
Proof.
  intros a Ha Hid. pose proof (TypedInv.assert_app_W3 cu f_app a Ha) as W. rewrite Hid, f_find in W.
  apply some_inj in W. symmetry. exact W.
Qed.
Lemma f_long : get_long cu [118;118] <> Some ao. Proof. vm_compute. discriminate. Qed.
Lemma f_infer : is_set s_infer_long cu = false. Proof. vm_compute. reflexivity. Qed.
Lemma f_short : get_short cu 120 <> Some ao. Proof. vm_compute. discriminate. Qed.
Lemma f_index : a_index ao = None. Proof. vm_compute. reflexivity. Qed.

Lemma ex_unnamed : forall a, In a (c_args cu) -> a_id a = (f_id ParseEx.fo) -> ~ occurs cu toks a.
Proof.
  intros a Ha Hid. rewrite (f_only a Ha Hid). clear a Ha Hid. intros [tok [Hin Hn]].
  destruct Hin as [<-|[<-|[<-|[]]]]; destruct Hn as [[f [ok [v [Hl Hs]]]]|[[r [Hr Hs]]|Hi]];
    try (vm_compute in Hl; discriminate Hl); try (vm_compute in Hr; discriminate Hr); try (apply Hi; exact f_index).
  - (* --vv selects the flag, not oo *)
    vm_compute in Hl. inversion Hl; subst f ok v. destruct Hs as [Hg|[Hinf _]].
    + exact (f_long Hg).
    + rewrite f_infer in Hinf. discriminate Hinf.
  - (* -x: the only character of the cluster selects x *)
    vm_compute in Hr. inversion Hr; subst r. destruct Hs as [n [ch [r' [Hsf Hg]]]].
    destruct n as [|[|n]]; vm_compute in Hsf; try discriminate Hsf.
    inversion Hsf; subst ch r'. exact (f_short Hg).
Qed.

Lemma ex_update_line :
  fields_only (d_nodes ParseEx.d) = true /\ In ParseEx.fo (fields_of (d_nodes ParseEx.d)) /\ bf_default ParseEx.fo = []
  /\ valid (with_bin (derive_cmd_for_update ParseEx.d) b_prog) = true
  /\ derived_update ParseEx.d UpdateEx.v0 (b_prog :: toks) = PValue v1
  /\ field_at (d_nodes ParseEx.d) v1 (f_id ParseEx.fo) = Some (DOpt (Some (SvInt 7%Z))).
Proof. split; [reflexivity|]. split; [right; left; reflexivity|]. repeat split; vm_compute; reflexivity. Qed.

(** by the theorem *)
Theorem ex_untouched : field_at (d_nodes ParseEx.d) v1 (f_id ParseEx.fo) = field_at (d_nodes ParseEx.d) UpdateEx.v0 (f_id ParseEx.fo).
Proof.
  destruct ex_update_line as (H1 & H2 & H3 & H4 & H5 & _).
  exact (update_unoccurring_untouched ParseEx.d b_prog toks UpdateEx.v0 v1 ParseEx.fo H1 H2 H3 H4 ex_unnamed H5).
Qed.
End UpdateLineEx.

(** below a flatten node: the struct of DeriveTotalEx.FlatEx updated from [prog --aa y]; [b] (inside the flattened struct,
    no default) is named by no token and keeps 3 -- while the flag [c] is reset and the optional flatten is materialised
    (the two recorded findings) *)
Module UpdateFlatEx.
Definition toks : list bytes := [[45;45;97;97]; [121]].
Definition v0 : list dval := [DOne (SvStr [120]); DStruct [DOne (SvInt 3); DOne (SvBool true)]; DOptStruct None].
Definition v1 : list dval := [DOne (SvStr [121]); DStruct [DOne (SvInt 3); DOne (SvBool false)]; DOptStruct (Some [DOpt None])].
Local Notation cu := (builtu FlatEx.d b_prog).
Definition ab : arg := nth 1 (c_args cu) help_arg.
Lemma f_app : assert_app cu = true. Proof. vm_compute. reflexivity. Qed.
Lemma f_find : find_arg cu (f_id FlatEx.fb) = Some ab. Proof. vm_compute. reflexivity. Qed.
Lemma f_long : get_long cu [97;97] <> Some ab. Proof. vm_compute. discriminate. Qed.
Lemma f_infer : is_set s_infer_long cu = false. Proof. vm_compute. reflexivity. Qed.
Lemma f_index : a_index ab = None. Proof. vm_compute. reflexivity. Qed.
Lemma ex_unnamed : forall a, In a (c_args cu) -> a_id a = (f_id FlatEx.fb) -> ~ occurs cu toks a.
Proof.
  intros a Ha Hid. pose proof (TypedInv.assert_app_W3 cu f_app a Ha) as W. rewrite Hid, f_find in W.
  apply some_inj in W. subst a. clear Ha Hid. intros [tok [Hin Hn]].
  destruct Hin as [<-|[<-|[]]]; destruct Hn as [[f [ok [v [Hl Hs]]]]|[[r [Hr Hs]]|Hi]];
    try (vm_compute in Hl; discriminate Hl); try (vm_compute in Hr; discriminate Hr); try (apply Hi; exact f_index).
  vm_compute in Hl. inversion Hl; subst f ok v. destruct Hs as [Hg|[Hinf _]].
  - exact (f_long Hg).
  - rewrite f_infer in Hinf. discriminate Hinf.
Qed.
Lemma ex_update_flat :
  flat_nodes (d_nodes FlatEx.d) = true /\ In FlatEx.fb (leaves (d_nodes FlatEx.d)) /\ bf_default FlatEx.fb = []
  /\ valid (with_bin (derive_cmd_for_update FlatEx.d) b_prog) = true
  /\ derived_update FlatEx.d v0 (b_prog :: toks) = PValue v1
  /\ field_at (d_nodes FlatEx.d) v1 (f_id FlatEx.fb) = Some (DOne (SvInt 3%Z)).
Proof. split; [reflexivity|]. split; [right; left; reflexivity|]. repeat split; vm_compute; reflexivity. Qed.
Theorem ex_untouched : field_at (d_nodes FlatEx.d) v1 (f_id FlatEx.fb) = field_at (d_nodes FlatEx.d) v0 (f_id FlatEx.fb).
Proof.
  destruct ex_update_flat as (H1 & H2 & H3 & H4 & H5 & _).
  exact (update_unoccurring_untouched_flat FlatEx.d b_prog toks v0 v1 FlatEx.fb H1 H2 H3 H4 ex_unnamed H5).
Qed.
End UpdateFlatEx.
