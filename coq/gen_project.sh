#!/bin/sh
# regenerate _CoqProject from the files on disk and (re)create the Makefile
cd "$(dirname "$0")"
{ echo "-Q theories ClapModel"; echo "-arg -w -arg -notation-overridden,-deprecated-hint-without-locality,-deprecated-instance-without-locality"; find theories -name '*.v' | sort; } > _CoqProject.new
if ! cmp -s _CoqProject.new _CoqProject 2>/dev/null; then mv _CoqProject.new _CoqProject; coq_makefile -f _CoqProject -o Makefile >/dev/null; else rm _CoqProject.new; [ -f Makefile ] || coq_makefile -f _CoqProject -o Makefile >/dev/null; fi
