(* Extraction of the textwrap models (C20).  ExtrOcamlBasic only; no Extract Constant. *)
From Coq Require Import Extraction ExtrOcamlBasic.
From ClapModel Require Import Base.Bytes Base.Utf8 Wrap.WrapModel.
Extraction Language OCaml.
Separate Extraction
  Utf8.decode WrapModel.encode WrapModel.table_width WrapModel.utf8_len_std
  WrapModel.find_words WrapModel.split_inclusive WrapModel.display_width
  WrapModel.wrap WrapModel.styled_wrap WrapModel.styled_display_width
  WrapModel.pieces_of_ranges
  BinNums.Z.   (* the type only: ocaml/common/conv.ml mentions coq_Z *)
