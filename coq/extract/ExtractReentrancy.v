(* Extraction of the stateful layer of the parser model (C11).  ExtrOcamlBasic only; no Extract Constant. *)
From Coq Require Import Extraction ExtrOcamlBasic.
From ClapModel Require Import Parse.Cmd Parse.Build Parse.Valid Parse.Matcher Parse.Errors Parse.Validator Parse.Parser.
From ClapModel Require Import Reentrancy.ReentrancyModel.
Extraction Language OCaml.
Separate Extraction
  Cmd.arg_new Cmd.group_new Cmd.cmd_new Cmd.settings_none Cmd.settings_or
  Build.build_self Build.build_recursive Valid.valid Valid.assert_app
  Parser.parse_top Parser.do_parse Errors.all_kinds Errors.exit_code Errors.use_stderr
  ReentrancyModel.step ReentrancyModel.run ReentrancyModel.run_obs ReentrancyModel.parse_mut
  ReentrancyModel.build_op ReentrancyModel.build_op_with ReentrancyModel.norm ReentrancyModel.visit_names.
