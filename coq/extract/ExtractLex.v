(* Extraction of the clap_lex models (C13, C14).  ExtrOcamlBasic only; no Extract Constant. *)
From Coq Require Import Extraction ExtrOcamlBasic.
From ClapModel Require Import Base.Bytes Lex.OsStrExtModel Lex.CursorModel.
Extraction Language OCaml.
Separate Extraction
  OsStrExtModel.find OsStrExtModel.contains OsStrExtModel.strip_prefix Bytes.starts_with
  OsStrExtModel.split OsStrExtModel.split_once
  CursorModel.crun CursorModel.cinit.
