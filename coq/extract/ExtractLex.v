(* Extraction of the clap_lex models (C13, C14).  ExtrOcamlBasic only; no Extract Constant. *)
From Coq Require Import Extraction ExtrOcamlBasic.
From ClapModel Require Import Base.Bytes Lex.OsStrExtModel Lex.CursorModel Lex.LexModel.
Extraction Language OCaml.
Separate Extraction
  OsStrExtModel.find OsStrExtModel.contains OsStrExtModel.strip_prefix Bytes.starts_with
  OsStrExtModel.split OsStrExtModel.split_once
  CursorModel.crun CursorModel.cinit
  LexModel.is_empty LexModel.is_stdio LexModel.is_escape LexModel.is_negative_number
  LexModel.to_long LexModel.is_long LexModel.to_short LexModel.is_short LexModel.to_value_ok
  LexModel.sf_new LexModel.sf_run LexModel.sf_next_value_os LexModel.sf_drain LexModel.drain_fuel
  LexModel.short_of_arg.
