(* Extraction of the escape-function models and the shell lexer models (C17).
   ExtrOcamlBasic only; no Extract Constant. *)
From Coq Require Import Extraction ExtrOcamlBasic.
From Coq Require Import ZArith.
From ClapModel Require Import Base.Bytes Base.Utf8 Escape.EscapeModel Escape.ShellLex.
Extraction Language OCaml.
Separate Extraction
  BinInt.Z.of_N Utf8.utf8_valid Utf8.decode Utf8.utf8_encode
  EscapeModel.replace EscapeModel.apply_chain
  EscapeModel.fish_escape_string EscapeModel.fish_escape_help EscapeModel.fish_escape_double_quoted
  EscapeModel.fish_possible_value_help
  EscapeModel.zsh_escape_help EscapeModel.zsh_escape_value EscapeModel.zsh_positional_help
  EscapeModel.powershell_escape_string EscapeModel.powershell_escape_help
  EscapeModel.elvish_escape_string EscapeModel.elvish_escape_help
  EscapeModel.nushell_single_line
  ShellLex.final ShellLex.events
  ShellLex.fish_step ShellLex.sh_step ShellLex.zspec_step ShellLex.ps_step ShellLex.el_step ShellLex.nu_step.
