(* Extraction for the C10 model driver: the kind table, the suggestion model (parametric in the
   similarity function) and the command model it reads.  ExtrOcamlBasic only; no Extract Constant. *)
From Coq Require Import Extraction ExtrOcamlBasic QArith.
From ClapModel Require Import Parse.Cmd Parse.Build Parse.Valid Parse.Errors Errors.Suggest.
Extraction Language OCaml.
Separate Extraction
  Cmd.arg_new Cmd.group_new Cmd.cmd_new Cmd.settings_none Cmd.settings_or
  Build.build_self Valid.valid
  Errors.all_kinds Errors.exit_code Errors.use_stderr Errors.kind_stream
  Suggest.did_you_mean Suggest.did_you_mean_flag Suggest.flag_suggestion Suggest.subcommand_suggestions
  Suggest.value_suggestion.
