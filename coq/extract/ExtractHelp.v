(* Extraction of the help/usage models (C12).  ExtrOcamlBasic only; no Extract Constant. *)
From Coq Require Import Extraction ExtrOcamlBasic.
From ClapModel Require Import Base.Bytes Base.Machine Parse.Cmd Help.UsageModel Help.HelpModel Help.HelpFlatten.
Extraction Language OCaml.
Separate Extraction
  Cmd.arg_new Cmd.group_new Cmd.cmd_new Cmd.settings_none
  UsageModel.harg_new UsageModel.hcmd_new UsageModel.cmd_with UsageModel.cmd_with_items UsageModel.hset_none UsageModel.len
  UsageModel.h_build_self UsageModel.level_walk UsageModel.s_help
  HelpModel.render_help HelpModel.render_help_template HelpModel.render_usage HelpModel.help_at HelpModel.row_key HelpModel.row_col
  HelpFlatten.render_help_flat HelpFlatten.render_usage_flat HelpFlatten.help_at_flat HelpFlatten.usage_text
  BinNums.Z.
