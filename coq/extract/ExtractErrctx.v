(* Extraction for the C01 "errctx" model driver: the parser model and, for an error outcome, the signature
   (message form, ordered context kinds with value shapes, specific message expected) of the rich errors it
   stands for (Errors/RenderLink.v: error_signature_table, proved equal to the
   signature computed from the constructor functions -- error_signature_table_ok).  ExtrOcamlBasic only; no Extract Constant. *)
From Coq Require Import Extraction ExtrOcamlBasic.
From ClapModel Require Import Parse.Cmd Parse.Build Parse.Valid Parse.Matcher Parse.Errors Parse.Validator Parse.Parser.
From ClapModel Require Import Errors.RenderModel Errors.RenderLink.
Extraction Language OCaml.
Separate Extraction
  Cmd.arg_new Cmd.group_new Cmd.cmd_new Cmd.settings_none Cmd.settings_or
  Build.build_self Build.build_recursive Cmd.find_subcommand Valid.valid Valid.assert_app
  Parser.parse_top Parser.do_parse Errors.all_kinds Errors.exit_code Errors.use_stderr
  RenderLink.error_signature_table.
