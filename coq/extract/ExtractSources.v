(* Extraction for the C06 driver (area "sources"): the parser model plus [args_present].
   ExtrOcamlBasic only; no Extract Constant. *)
From Coq Require Import Extraction ExtrOcamlBasic.
From ClapModel Require Import Parse.Cmd Parse.Build Parse.Valid Parse.Matcher Parse.Errors Parse.Validator Parse.Parser.
From ClapModel Require Import Sources.Present.
Extraction Language OCaml.
Separate Extraction
  Cmd.arg_new Cmd.group_new Cmd.cmd_new Cmd.settings_none Cmd.settings_or
  Build.build_self Build.build_recursive Build.build_subcommand Cmd.id_exists Valid.valid Valid.assert_app
  Parser.parse_top Parser.do_parse Parser.matches_depth Errors.all_kinds Errors.exit_code Errors.use_stderr
  Present.args_present Present.present_chain.
