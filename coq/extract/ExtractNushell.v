(* Extraction of the nushell completion generator model (C16/C17).  ExtrOcamlBasic only; no Extract Constant. *)
From Coq Require Import Extraction ExtrOcamlBasic ZArith.
From ClapModel Require Import Base.Bytes Complete.AotTree Complete.FishModel Complete.NushellModel.
Extraction Language OCaml.
Separate Extraction
  AotTree.mkArg AotTree.mkCmd AotTree.mkSets AotTree.sets0 AotTree.cmd_new
  AotTree.set_bin_name AotTree.build
  FishModel.mkAd FishModel.mkCd FishModel.cd0 FishModel.ad0
  FishModel.innocuous_desc FishModel.dbuild
  NushellModel.generate_nushell NushellModel.nushell_script
  BinInt.Z.of_N.  (* conv.ml mentions coq_Z *)
