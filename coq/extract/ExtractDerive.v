(* Extraction of the derive model (C15).  ExtrOcamlBasic only; no Extract Constant. *)
From Coq Require Import Extraction ExtrOcamlBasic.
From ClapModel Require Import Parse.Cmd Parse.Build Parse.Valid Parse.Matcher Parse.Errors Parse.Parser.
From ClapModel Require Import Derive.DeriveModel.
Extraction Language OCaml.
Separate Extraction
  Cmd.arg_new Cmd.group_new Cmd.cmd_new Build.build_self Build.build_recursive Valid.valid
  Parser.parse_top Errors.all_kinds Errors.exit_code Errors.use_stderr Cmd.settings_none Cmd.settings_or PossibleValues.name_and_aliases
  DeriveModel.derive_cmd DeriveModel.derive_cmd_for_update DeriveModel.derived_parse DeriveModel.derived_update
  DeriveModel.extract DeriveModel.update DeriveModel.print DeriveModel.matches_of_print
  DeriveModel.print_top DeriveModel.ve_from_str DeriveModel.lits DeriveModel.ve_to_possible_value.
