(* Extraction of the completion-engine model (C18).  ExtrOcamlBasic only; no Extract Constant. *)
From Coq Require Import Extraction ExtrOcamlBasic.
From ClapModel Require Import Parse.Cmd Parse.Build Parse.Valid Complete.EngineModel Complete.EngineOrder.
Extraction Language OCaml.
Separate Extraction
  Cmd.arg_new Cmd.group_new Cmd.cmd_new Cmd.settings_none Cmd.settings_or
  EngineModel.complete_model EngineModel.start_walk EngineModel.build_full EngineModel.build_fuel
  EngineOrder.complete_model_ord.
