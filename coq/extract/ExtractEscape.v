(* Extraction for the C05 driver (three parses per case); same model functions as ExtractParse.
   ExtrOcamlBasic only; no Extract Constant. *)
From Coq Require Import Extraction ExtrOcamlBasic.
From ClapModel Require Import Parse.Cmd Parse.Build Parse.Valid Parse.Matcher Parse.Errors Parse.Validator Parse.Parser.
Extraction Language OCaml.
Separate Extraction
  Cmd.arg_new Cmd.group_new Cmd.cmd_new Cmd.settings_none Cmd.settings_or
  Build.build_self Build.build_recursive Valid.valid Valid.assert_app
  Parser.parse_top Parser.do_parse Errors.all_kinds Errors.exit_code Errors.use_stderr.
