(* Extraction of the elvish generator model (C16/C17).  ExtrOcamlBasic only; no Extract Constant. *)
From Coq Require Import Extraction ExtrOcamlBasic ZArith.
From ClapModel Require Import Base.Bytes Base.Utf8 Complete.AotTree Complete.TextTree Complete.ElvishModel
  Escape.ShellLex.
Extraction Language OCaml.
Separate Extraction
  AotTree.mkArg AotTree.mkCmd AotTree.mkSets AotTree.sets0 AotTree.cmd_new
  AotTree.set_bin_name AotTree.build
  TextTree.mkAt TextTree.mkTt TextTree.tt_none TextTree.tbuild
  ElvishModel.generate ElvishModel.generate_elvish
  Utf8.utf8_valid Utf8.decode Utf8.utf8_encode
  ShellLex.final ShellLex.events ShellLex.skeleton ShellLex.el_step
  BinInt.Z.of_N.  (* conv.ml mentions coq_Z *)
