(* Extraction of the zsh completion generator model (C16/C17).  ExtrOcamlBasic only; no Extract Constant. *)
From Coq Require Import Extraction ExtrOcamlBasic ZArith.
From ClapModel Require Import Base.Bytes Complete.AotTree Complete.FishModel Complete.ZshModel.
Extraction Language OCaml.
Separate Extraction
  AotTree.mkArg AotTree.mkCmd AotTree.mkSets AotTree.sets0 AotTree.cmd_new
  AotTree.set_bin_name AotTree.build
  FishModel.mkAd FishModel.mkCd FishModel.cd0 FishModel.ad0
  FishModel.innocuous_desc FishModel.dbuild
  ZshModel.generate_zsh ZshModel.zsh_script
  BinInt.Z.of_N.  (* conv.ml mentions coq_Z *)
