(* Extraction of the roff / clap_mangen models (C19).  ExtrOcamlBasic only; no Extract Constant. *)
From Coq Require Import Extraction ExtrOcamlBasic.
From ClapModel Require Import Base.Bytes Man.RoffModel Man.ManModel.
Extraction Language OCaml.
Separate Extraction
  ManModel.man_page ManModel.man_doc ManModel.mbuild ManModel.man_new ManModel.apply_overrides
  RoffModel.to_writer RoffModel.to_roff RoffModel.control_lines
  BinNums.Z.   (* the type only: ocaml/common/conv.ml mentions coq_Z *)
