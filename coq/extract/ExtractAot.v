(* Extraction of the ahead-of-time completion models (C16).  ExtrOcamlBasic only; no Extract Constant. *)
From Coq Require Import Extraction ExtrOcamlBasic ZArith.
From ClapModel Require Import Base.Bytes Complete.AotTree Complete.BashModel.
Extraction Language OCaml.
Separate Extraction
  AotTree.mkArg AotTree.mkCmd AotTree.mkSets AotTree.sets0 AotTree.cmd_new
  AotTree.set_bin_name AotTree.build AotTree.possible_values AotTree.a_takes_values AotTree.a_is_positional
  AotTree.a_get_hint AotTree.a_min_values AotTree.a_max_values
  BashModel.generate_bash BashModel.bash_table BashModel.render BashModel.bash_complete
  BinInt.Z.of_N.  (* conv.ml mentions coq_Z *)
