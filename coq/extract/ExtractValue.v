(* Extraction of the value-parser and typed-store models (C04).  ExtrOcamlBasic only; no Extract Constant. *)
From Coq Require Import Extraction ExtrOcamlBasic.
From ClapModel Require Import Base.Bytes Base.Utf8 Value.ValueBase Value.IntParse Value.IntFactory
  Value.BoolParse Value.PossibleValues Value.TypedStore.
Extraction Language OCaml.
Separate Extraction
  ValueBase.kind_names_arg
  IntFactory.int_value_parse_d IntParse.reject_kind
  BoolParse.bool_parse BoolParse.boolish_parse BoolParse.falsey_parse BoolParse.nonempty_parse
  BoolParse.string_parse
  PossibleValues.possible_parse PossibleValues.enum_parse
  TypedStore.run TypedStore.mk_entry.
