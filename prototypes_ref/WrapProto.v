From Coq Require Import List NArith Lia Bool.
Import ListNotations.
Open Scope N_scope.

Definition chr := N.
Definition str := list chr.

(* Rust char::is_whitespace *)
Definition is_ws (c : chr) : bool :=
  ((9 <=? c) && (c <=? 13)) || (c =? 32) || (c =? 133) || (c =? 160) || (c =? 5760)
  || ((8192 <=? c) && (c <=? 8202)) || (c =? 8232) || (c =? 8233) || (c =? 8239)
  || (c =? 8287) || (c =? 12288).

Definition NL : chr := 10.
Definition SP : chr := 32.

Fixpoint drop_ws (s : str) : str :=
  match s with
  | [] => []
  | c :: t => if is_ws c then drop_ws t else s
  end.
Definition trim_end (s : str) : str := rev (drop_ws (rev s)).
Definition all_ws (s : str) : bool := forallb is_ws s.

(* find_words_ascii_space *)
Fixpoint find_words_aux (line : str) (cur : str) (in_ws : bool) : list str :=
  match line with
  | [] => match cur with [] => [] | _ => [rev cur] end
  | ch :: rest =>
      let nw := (ch =? SP) in
      if in_ws && negb nw then rev cur :: find_words_aux rest [ch] nw
      else find_words_aux rest (ch :: cur) nw
  end.
Definition find_words (line : str) : list str := find_words_aux line [] false.

Section W.
Variable ch_width : chr -> N.
Variable utf8_len : chr -> N.

(* display_width with control-sequence skipping *)
Fixpoint dw_aux (s : str) (ctrl : bool) (acc : N) : N :=
  match s with
  | [] => acc
  | c :: t =>
      if (c <? 32) || (c =? 127) then dw_aux t true acc
      else if ctrl && (c =? 109) then dw_aux t false acc
      else if ctrl then dw_aux t true acc else dw_aux t false (acc + ch_width c)
  end.
Definition display_width (s : str) : N := dw_aux s false 0.
Definition blen (s : str) : N := fold_right (fun c a => utf8_len c + a) 0 s.

Record wst := { lw : N; carry : option str }.

(* process words; [acc] is output so far, reversed (head = last emitted piece) *)
Fixpoint wrap_go (hard : N) (cy : str) (lwd : N) (first : bool) (acc : list str) (ws : list str)
  : list str * N :=
  match ws with
  | [] => (rev acc, lwd)
  | w :: rest =>
      let tr := trim_end w in
      let ww := display_width tr in
      let delta := blen w - blen tr in
      if negb first && (hard <? lwd + ww) then
        let acc' := match acc with [] => [] | p :: q => trim_end p :: q end in
        wrap_go hard cy (blen cy + ww + delta) false (w :: cy :: [NL] :: acc') rest
      else wrap_go hard cy (lwd + ww + delta) false (w :: acc) rest
  end.

Definition wrap_call (hard : N) (st : wst) (ws : list str) : list str * wst :=
  let cy := match carry st with
            | Some c => Some c
            | None => match ws with [] => None | w :: _ => Some (if all_ws w then w else []) end
            end in
  match cy with
  | None => (ws, st)   (* no words *)
  | Some c => let '(o, l) := wrap_go hard c (lw st) true [] ws in (o, {| lw := l; carry := Some c |})
  end.

Definition wrap_line (hard : N) (line : str) : str :=
  concat (fst (wrap_call hard {| lw := 0; carry := None |} (find_words line))).

End W.

Definition w1 (c:chr) : N := 1.
Definition s2n (l : list N) := l.
Eval vm_compute in wrap_line w1 w1 5 (s2n [102;111;111;32;98;97;114;32;98;97;122]).
Eval vm_compute in wrap_line w1 w1 6 (s2n [32;102;111;111;98;97;114;32;98;97;122]).
Eval vm_compute in wrap_line w1 w1 1 (s2n [97;9;32;98]).
