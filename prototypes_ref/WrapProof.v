From Coq Require Import List NArith Lia Bool.
Import ListNotations.
Require Import WrapProto.
Open Scope N_scope.

Section P.
Variable ch_width : chr -> N.
Variable utf8_len : chr -> N.
Notation display_width := (display_width ch_width).
Notation blen := (blen utf8_len).

(* look-ahead formulation *)
Fixpoint go (hard : N) (cy : str) (lwd : N) (ws : list str) : list str :=
  match ws with
  | [] => []
  | w :: rest =>
      let lwd' := lwd + display_width (trim_end w) + (blen w - blen (trim_end w)) in
      match rest with
      | [] => [w]
      | n :: _ =>
          if hard <? lwd' + display_width (trim_end n)
          then trim_end w :: [NL] :: cy :: go hard cy (blen cy) rest
          else w :: go hard cy lwd' rest
      end
  end.

(* The property-level relation *)
Definition no_nl (s : str) := forallb (fun c => negb (c =? NL)) s = true.

Inductive Wrapped (ind : str) : str -> str -> Prop :=
| W_nil : Wrapped ind [] []
| W_keep c s o : Wrapped ind s o -> Wrapped ind (c :: s) (c :: o)
| W_break w s o : w <> [] -> all_ws w = true -> no_nl w -> Wrapped ind s o ->
    Wrapped ind (w ++ s) (NL :: ind ++ o).

Lemma Wrapped_app_keep ind a s o : Wrapped ind s o -> Wrapped ind (a ++ s) (a ++ o).
Proof. induction a as [|c a IH]; simpl; intros H; [exact H|]. constructor. auto. Qed.

Lemma drop_ws_spec s : exists w, s = w ++ drop_ws s /\ all_ws w = true.
Proof.
  induction s as [|c t IH]; simpl.
  - exists []. split; reflexivity.
  - destruct (is_ws c) eqn:E.
    + destruct IH as [w [Hw Ha]]. exists (c :: w). split.
      * simpl. f_equal. exact Hw.
      * simpl. rewrite E. exact Ha.
    + exists []. split; reflexivity.
Qed.

Lemma all_ws_rev w : all_ws (rev w) = all_ws w.
Proof.
  unfold all_ws. induction w as [|c t IH]; simpl; [reflexivity|].
  rewrite forallb_app. simpl. rewrite IH. rewrite andb_true_r. apply andb_comm.
Qed.

Lemma trim_end_spec s : exists w, s = trim_end s ++ w /\ all_ws w = true.
Proof.
  unfold trim_end. destruct (drop_ws_spec (rev s)) as [w [Hw Ha]].
  exists (rev w). split.
  - rewrite <- rev_app_distr. rewrite <- Hw. symmetry. apply rev_involutive.
  - rewrite all_ws_rev. exact Ha.
Qed.

(* a word that "ends with a space" *)
Definition ends_sp (w : str) := exists p, w = p ++ [SP].

Lemma trim_end_ends_sp w : ends_sp w -> exists t, w = trim_end w ++ t /\ t <> [] /\ all_ws t = true.
Proof.
  intros [p Hp]. destruct (trim_end_spec w) as [t [Ht Ha]].
  exists t. split; [exact Ht|]. split; [|exact Ha].
  intro E. subst t. rewrite app_nil_r in Ht.
  (* trim_end w = w but w ends with space: contradiction *)
  unfold trim_end in Ht. subst w. rewrite rev_app_distr in Ht. simpl in Ht.
  (* is_ws SP = true *)
  change (is_ws SP) with true in Ht. cbv iota in Ht.
  assert (L: length (p ++ [SP]) = length (rev (drop_ws (rev p)))) by (rewrite Ht at 1; reflexivity).
  rewrite app_length, rev_length in L. simpl in L.
  assert (D: forall s, (length (drop_ws s) <= length s)%nat).
  { induction s as [|c t IH]; simpl; [lia|]. destruct (is_ws c); simpl; lia. }
  specialize (D (rev p)). rewrite rev_length in D. lia.
Qed.

Lemma no_nl_app a b : no_nl (a ++ b) -> no_nl a /\ no_nl b.
Proof. unfold no_nl. rewrite forallb_app. intros H. apply andb_true_iff in H. exact H. Qed.

(* main lemma: every word but the last ends with a space and has no newline *)
Inductive good_words : list str -> Prop :=
| gw_nil : good_words []
| gw_last w : good_words [w]
| gw_cons w n rest : ends_sp w -> no_nl w -> good_words (n :: rest) -> good_words (w :: n :: rest).

Lemma go_wrapped hard cy : forall ws lwd, good_words ws ->
  Wrapped cy (concat ws) (concat (go hard cy lwd ws)).
Proof.
  induction ws as [|w rest IH]; intros lwd G.
  - simpl. constructor.
  - simpl. destruct rest as [|n rest'].
    + simpl. rewrite app_nil_r. rewrite <- (app_nil_r w) at 2. rewrite <- (app_nil_r w) at 1. apply Wrapped_app_keep. constructor.
    + inversion G as [| |w' n' r' He Hn G']; subst.
      destruct (hard <? _).
      * destruct (trim_end_ends_sp w He) as [t [Ht [Hne Ha]]].
        cbn [concat]. rewrite Ht at 1. rewrite <- app_assoc.
        apply Wrapped_app_keep. cbn [app]. 
        change ([NL] ++ cy ++ concat (go hard cy (blen cy) (n :: rest')))
          with (NL :: cy ++ concat (go hard cy (blen cy) (n :: rest'))).
        apply W_break; auto.
        -- rewrite Ht in Hn. apply no_nl_app in Hn. tauto.
      * cbn [concat]. apply Wrapped_app_keep. apply IH. exact G'.
Qed.
End P.
Print Assumptions go_wrapped.
